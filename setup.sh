#!/bin/bash
# Offline setup: make sure hypothesis is importable from /venv (it normally already is) and, best effort,
# put atheris into /verif/.deps for the thorough-tier fuzz shards (they are skipped if it is absent).
HERE="$(cd "$(dirname "${BASH_SOURCE[0]}")" && pwd)"
export PIP_NO_INDEX=1
/venv/bin/python -c "import hypothesis" 2>/dev/null || \
  /venv/bin/pip install --no-index --find-links /opt/veriftools/wheels hypothesis || exit 1
/venv/bin/python -c "import hypothesis; print('hypothesis', hypothesis.__version__)" || exit 1
if ! PYTHONPATH="$HERE/.deps" /venv/bin/python -c "import atheris" 2>/dev/null; then
  /venv/bin/pip install --no-index --find-links /opt/veriftools/wheels --target "$HERE/.deps" atheris >/dev/null 2>&1 \
    || echo "atheris not installed (fuzz shards will be skipped)"
fi
exit 0
