"""Regenerates /verif/MANIFEST.json from the check modules that exist (python -m vlib.mkmanifest)."""
import importlib
import json
import os

VERIF_DIR = os.path.dirname(os.path.dirname(os.path.abspath(__file__)))

BASELINE_OFF = ("cd /repo && env -u HIPPOLYZER_VERIF /venv/bin/python -m pytest -ra -q -p no:cacheprovider "
                "--timeout=900 --continue-on-collection-errors")


def main():
    props = [json.loads(l) for l in open(os.path.join(VERIF_DIR, "properties.jsonl"))]
    checks, na = [], []
    for p in props:
        pid = p["id"]
        path = os.path.join(VERIF_DIR, "checks", pid.lower() + ".py")
        if not os.path.exists(path):
            na.append({"property_id": pid, "reason": "check not built yet (design in DESIGN.md section %s); "
                                                     "not claimed until its check exists and is quiet on the unchanged tree" % pid})
            continue
        mod = importlib.import_module("checks." + pid.lower())
        m = mod.MANIFEST
        checks.append({
            "property_id": pid,
            "quick_cmd": "./check %s --tier quick" % pid,
            "thorough_cmd": "./check %s --tier thorough" % pid,
            "evidence_file": "/verif/evidence/%s.json" % pid,
            "replay_cmd_template": "./check %s --replay {path}" % pid,
            "engine": "pbt-runner",
            "level_claimed": {"category": mod.LEVEL, "text": m["text"], "design_ref": "DESIGN.md section %s" % pid},
            "level_note": m["note"],
            "technique": m["technique"],
        })
    manifest = {
        "version": 1,
        "setup_cmd": "./setup.sh",
        "hooks": {
            "guard": "HIPPOLYZER_VERIF",
            "enable": "no source hooks are needed: checks import /repo's working tree in a fresh interpreter "
                      "(PYTHONPATH=/repo) and observe through public seams; ./check exports HIPPOLYZER_VERIF=1 "
                      "for uniformity only",
            "baseline_off_cmd": BASELINE_OFF,
            "source_commits": [],
            "add_only": True,
        },
        "engines": [{
            "name": "pbt-runner",
            "path": "/verif/vlib/runner.py",
            "serves_properties": [c["property_id"] for c in checks],
            "kind_free_text": "Hypothesis (structured + stateful generation, signature-wise collect-then-shrink) and "
                              "sharded exhaustive enumeration of finite sub-domains over 16 processes; explicit "
                              "oracles (reference models, round-trips, differentials) per property in /verif/checks",
        }],
        "checks": checks,
        "not_applicable": na,
        "notes": "Every check: exit 0 held / 1 VIOLATION line + replay file / 2 harness error. KNOWN-FINDING lines come "
                 "from /verif/known_findings.json (never written at run time). ./check --selftest <id> runs the "
                 "sensitivity self-test against /verif/mutants and /verif/seeded.",
    }
    with open(os.path.join(VERIF_DIR, "MANIFEST.json"), "w") as f:
        json.dump(manifest, f, indent=1)
    print("claimed:", [c["property_id"] for c in checks], "not_applicable:", [n["property_id"] for n in na])


if __name__ == "__main__":
    main()
