"""Generator for serialization-combinator spec trees and values drawn from the derived domain (C08; reused by C09/C13/C20).

A spec *description* is plain data: {"k": kind, ...params, "c": [child descriptions]}.  For every kind this module knows how
to build the library spec object, a Hypothesis strategy for plain values of its domain, the rich (object-mode) value to
hand to the writer, and the normalised value a reader must return in object and in plain-data (pod) mode."""
import dataclasses
import enum
import struct

import lazy_object_proxy
import numpy as np
from hypothesis import strategies as st

import hippolyzer.lib.base.serialization as se
import hippolyzer.lib.base.datatypes as dtypes

PRIMS = {"U8": se.U8, "S8": se.S8, "U16": se.U16, "S16": se.S16, "U32": se.U32, "S32": se.S32, "U64": se.U64, "S64": se.S64}
UNSIGNED = ("U8", "U16", "U32", "U64")


class E1(enum.IntEnum):
    ZERO = 0
    ONE = 1
    FIVE = 5
    TOP = 255


class F1(enum.IntFlag):
    A = 1
    B = 2
    D = 8
    H = 0x80
    LEVEL_MASK = 0x30       # a multi-bit mask member whose bits have no single-bit names of their own


def flags_pod_ref(flag_cls, val):
    """plain-data form of a flag value, written from the documented shape: names of the single-bit members that are set, then one
    integer holding every other bit (nothing if there is none)"""
    singles = [m for m in flag_cls.__members__.values() if m.value and m.value & (m.value - 1) == 0]
    names = tuple(m.name for m in singles if val & m.value)
    left = val
    for m in singles:
        left &= ~m.value
    return names + ((int(left),) if left else ())


class SE1(dtypes.StringEnum):
    FOO = "foo"
    BAR = "bar baz"


def prim_range(name):
    p = PRIMS[name]
    return p.min_val, p.max_val


def f32(x):
    return struct.unpack("<f", struct.pack("<f", x))[0]


F32S = st.floats(width=32, allow_nan=False, allow_infinity=False)
F64S = st.floats(allow_nan=False, allow_infinity=False)


def ints(lo, hi):
    return st.one_of(st.integers(lo, hi), st.sampled_from(sorted({lo, hi, min(max(0, lo), hi), min(max(1, lo), hi)})))


# -------------------------------------------------------------------------------------------------
# kinds.  every entry: gen(draw, depth, last) -> desc
# -------------------------------------------------------------------------------------------------
LEAF_KINDS = ["prim", "f32", "f64", "bytes_fixed", "byte_array", "str", "str_fixed", "cstr", "bytes_term", "uuid", "int_enum",
              "int_flag", "bitfield", "bool", "expr", "quant", "vec3", "quant_vec", "fixed_point", "string_enum", "ctx_adapter"]
WINDOW_LEAF_KINDS = ["bytes_greedy"]
NODE_KINDS = ["tuple", "template", "collection_prefixed", "collection_fixed", "optional_prefixed", "enum_switch", "flag_switch",
              "typed_byte_array", "typed_bytes_fixed", "dataclass", "dict_adapter", "ctx_template", "ctx_tuple_template", "ctx_typed_template", "flagged_template", "bitfield_dc"]
WINDOW_NODE_KINDS = ["collection_greedy", "if_present", "length_switch", "typed_bytes_greedy"]
ALL_KINDS = LEAF_KINDS + WINDOW_LEAF_KINDS + NODE_KINDS + WINDOW_NODE_KINDS


@st.composite
def spec_desc(draw, depth=3, last=True, want_fixed=False):
    """a spec description.  `last`: the node ends its byte window, so window-consuming kinds are allowed.
    `want_fixed`: only kinds with a fixed, non-zero encoded size."""
    if want_fixed:
        kind = draw(st.sampled_from(["prim", "f32", "bytes_fixed", "str_fixed", "uuid", "int_enum", "int_flag", "bitfield", "bool",
                                     "quant", "vec3", "quant_vec", "fixed_point", "tuple_fixed"]))
    else:
        pool = list(LEAF_KINDS)
        if depth > 0:
            pool += NODE_KINDS * 2
        if last:
            pool += WINDOW_LEAF_KINDS
            if depth > 0:
                pool += WINDOW_NODE_KINDS
        kind = draw(st.sampled_from(pool))
    d = {"k": kind}
    sub = lambda **kw: draw(spec_desc(depth=depth - 1, **kw))     # noqa: E731
    if kind == "prim":
        d["p"] = draw(st.sampled_from(sorted(PRIMS)))
    elif kind == "bytes_fixed":
        d["n"] = draw(st.integers(1, 6))
    elif kind in ("byte_array", "str"):
        d["len"] = draw(st.sampled_from(["U8", "U16", "U32"]))
        if kind == "str":
            d["null_term"] = draw(st.booleans())
    elif kind == "str_fixed":
        d["n"] = draw(st.integers(1, 8))
    elif kind == "bytes_term":
        d["terms"] = draw(st.sampled_from([[b"\x00"], [b"\n", b";"]]))
        d["strict"] = draw(st.booleans())       # the end of the window does not stand in for a terminator
    elif kind == "int_enum":
        d["p"] = draw(st.sampled_from(["U8", "U16", "S16", "U32"]))
        d["strict"] = draw(st.booleans())
    elif kind == "int_flag":
        d["p"] = draw(st.sampled_from(["U8", "U16", "U32", "S8", "S16", "S32"]))
    elif kind in ("bitfield", "bitfield_dc"):
        d["p"] = draw(st.sampled_from(["U8", "U16", "U32"]))
        total = PRIMS[d["p"]].calc_size() * 8
        bits = []
        left = total
        for _ in range(draw(st.integers(1, 4))):
            if left <= 0:
                break
            b = draw(st.integers(1, min(left, 12)))
            bits.append(b)
            left -= b
        d["bits"] = bits
        d["shift"] = draw(st.booleans())
    elif kind == "quant":
        d["p"] = draw(st.sampled_from(["U8", "U16", "S16"]))
        d["lo"], d["hi"] = draw(st.sampled_from([(0.0, 1.0), (-1.0, 1.0), (-64.0, 64.0), (-256.0, 4096.0)]))
    elif kind == "quant_vec":
        d["cls"] = draw(st.sampled_from(["Vector3U16", "Vector4U16", "Vector3U8", "Vector2U16"]))
        d["lo"], d["hi"] = draw(st.sampled_from([(0.0, 1.0), (-1.0, 1.0), (-128.0, 128.0)]))
    elif kind == "fixed_point":
        d["p"], d["ib"], d["fb"], d["signed"] = draw(st.sampled_from([("U16", 8, 8, False), ("U8", 3, 5, False), ("U16", 8, 7, True)]))
    elif kind == "tuple_fixed":
        d["c"] = [sub(last=False, want_fixed=True) for _ in range(draw(st.integers(1, 3)))]
    elif kind == "tuple":
        n = draw(st.integers(1, 3))
        d["c"] = [sub(last=(last and i == n - 1)) for i in range(n)]
    elif kind == "template":
        n = draw(st.integers(1, 3))
        d["c"] = [sub(last=(last and i == n - 1)) for i in range(n)]
        d["skip_missing"] = draw(st.booleans())
    elif kind == "collection_prefixed":
        d["len"] = draw(st.sampled_from(["U8", "U16"]))
        d["c"] = [sub(last=False)]
    elif kind == "collection_fixed":
        d["n"] = draw(st.integers(1, 3))
        d["c"] = [sub(last=False)]
    elif kind == "collection_greedy":
        d["c"] = [sub(last=False, want_fixed=draw(st.booleans()))]
        if not _nonempty(d["c"][0]):
            d["c"] = [{"k": "prim", "p": "U8"}]
    elif kind in ("optional_prefixed",):
        d["c"] = [sub(last=last)]
    elif kind == "if_present":
        d["c"] = [sub(last=True, want_fixed=True)]
    elif kind == "length_switch":
        kids = [sub(last=False, want_fixed=True) for _ in range(draw(st.integers(1, 3)))]
        # distinct sizes, keyed by size
        seen, uniq = set(), []
        for c in kids:
            s = _fixed_size(c)
            if s not in seen:
                seen.add(s)
                uniq.append(c)
        d["c"] = uniq
        d["default"] = draw(st.booleans())
    elif kind == "enum_switch":
        d["p"] = "U8"
        members = draw(st.lists(st.sampled_from(["ZERO", "ONE", "FIVE", "TOP"]), min_size=1, max_size=3, unique=True))
        d["members"] = members
        d["c"] = [sub(last=last) for _ in members]
    elif kind == "flag_switch":
        d["p"] = "U8"
        members = draw(st.lists(st.sampled_from(["A", "B", "D", "H"]), min_size=1, max_size=3, unique=True))
        d["members"] = members
        d["c"] = [sub(last=False) for _ in members]
    elif kind == "typed_byte_array":
        d["len"] = draw(st.sampled_from(["U8", "U16", "U32"]))
        d["lazy"] = draw(st.booleans())
        # a one-byte length prefix only with inner specs whose encoding is known to fit
        d["c"] = [sub(last=True, want_fixed=(d["len"] == "U8"))]
        d["empty_is_none"] = draw(st.booleans()) and _nonempty(d["c"][0])
    elif kind == "typed_bytes_fixed":
        d["lazy"] = draw(st.booleans())
        d["c"] = [sub(last=True, want_fixed=True)]
        d["empty_is_none"] = False
    elif kind == "typed_bytes_greedy":
        d["lazy"] = draw(st.booleans())
        d["c"] = [sub(last=True)]
        d["empty_is_none"] = draw(st.booleans()) and _nonempty(d["c"][0])
    elif kind == "dataclass":
        n = draw(st.integers(1, 3))
        d["c"] = [sub(last=(last and i == n - 1)) for i in range(n)]
    elif kind == "dict_adapter":
        d["c"] = [sub(last=False)]
    elif kind in ("ctx_template", "ctx_tuple_template", "ctx_typed_template"):
        d["c"] = [sub(last=False), sub(last=False), sub(last=last)]
    elif kind == "flagged_template":
        d["flagspec"] = draw(st.sampled_from(["prim", "int_flag"]))
        d["c"] = [sub(last=False), sub(last=last)]
        if draw(st.integers(0, 2)) == 0:
            # a flagged member for which None is a legal value with a non-empty encoding (absent optional): flag set + None
            d["c"][0] = {"k": "optional_prefixed", "c": [{"k": "prim", "p": draw(st.sampled_from(["U8", "U16", "S32"]))}]}
    return d


def _fixed_size(d):
    """encoded size if it is the same for every value of the domain, else None (the harness's own computation)"""
    k = d["k"]
    if k in ("prim", "int_enum", "int_flag", "bitfield", "bitfield_dc", "quant", "fixed_point"):
        return PRIMS[d["p"]].calc_size()
    if k == "f32":
        return 4
    if k == "f64":
        return 8
    if k in ("bytes_fixed", "str_fixed"):
        return d["n"]
    if k == "uuid":
        return 16
    if k in ("bool",):
        return 1
    if k in ("expr", "ctx_adapter"):
        return 2
    if k == "vec3":
        return 12
    if k == "quant_vec":
        n = {"Vector3U16": 6, "Vector4U16": 8, "Vector3U8": 3, "Vector2U16": 4}[d["cls"]]
        return n
    if k in ("tuple", "tuple_fixed", "dataclass"):
        s = [_fixed_size(c) for c in d["c"]]
        return None if any(x is None for x in s) else sum(s)
    if k == "template":
        s = [_fixed_size(c) for c in d["c"]]
        return None if any(x is None for x in s) else sum(s)
    if k == "collection_fixed":
        s = _fixed_size(d["c"][0])
        return None if s is None else s * d["n"]
    if k == "typed_bytes_fixed":
        return _fixed_size(d["c"][0])
    return None


def _nonempty(d):
    """every value of the domain has a non-empty encoding"""
    s = _fixed_size(d)
    if s:
        return True
    return d["k"] in ("byte_array", "str", "cstr", "collection_prefixed", "optional_prefixed", "typed_byte_array", "enum_switch",
                      "flag_switch", "dict_adapter", "string_enum", "ctx_template", "ctx_tuple_template", "ctx_typed_template", "flagged_template") or \
        (d["k"] == "bytes_term")


def self_delimiting(d):
    k = d["k"]
    if k in ("bytes_greedy", "collection_greedy", "if_present", "length_switch", "typed_bytes_greedy"):
        return False
    if k in ("tuple", "template", "dataclass", "ctx_template", "ctx_tuple_template", "ctx_typed_template", "flagged_template"):
        return all(self_delimiting(c) for c in d["c"])
    if k in ("optional_prefixed", "enum_switch"):
        return all(self_delimiting(c) for c in d["c"])
    return True


# -------------------------------------------------------------------------------------------------
# building spec objects
# -------------------------------------------------------------------------------------------------
_DC_CACHE = {}


def build(d):
    k = d["k"]
    kids = [build(c) for c in d.get("c", [])]
    if k == "prim":
        return PRIMS[d["p"]]
    if k == "f32":
        return se.F32
    if k == "f64":
        return se.F64
    if k == "bytes_fixed":
        return se.BytesFixed(d["n"])
    if k == "byte_array":
        return se.ByteArray(PRIMS[d["len"]])
    if k == "bytes_greedy":
        return se.BytesGreedy()
    if k == "bytes_term":
        return se.BytesTerminated(d["terms"], eof_terminates=not d.get("strict", False))
    if k == "str":
        return se.Str(PRIMS[d["len"]], null_term=d["null_term"])
    if k == "str_fixed":
        return se.StrFixed(d["n"])
    if k == "cstr":
        return se.CStr()
    if k == "uuid":
        return se.UUID
    if k == "int_enum":
        return se.IntEnum(E1, PRIMS[d["p"]], strict=d["strict"])
    if k == "int_flag":
        return se.IntFlag(F1, PRIMS[d["p"]])
    if k == "bitfield":
        return se.BitField(PRIMS[d["p"]], {"f%d" % i: b for i, b in enumerate(d["bits"])}, shift=d["shift"])
    if k == "bitfield_dc":
        dc = dataclasses.make_dataclass("BDC", [("f%d" % i, int, se.bitfield_field(bits=b)) for i, b in enumerate(d["bits"])])
        d["_dc"] = dc
        return se.BitfieldDataclass(dc, PRIMS[d["p"]], shift=d["shift"])
    if k == "bool":
        return se.BoolAdapter(se.U8)
    if k == "expr":
        return se.ExprAdapter(se.U16, decode_func=lambda x: x + 1000, encode_func=lambda x: x - 1000)
    if k == "string_enum":
        return se.StringEnumAdapter(SE1, se.CStr())
    if k == "ctx_adapter":
        # one wire byte whose meaning is chosen by a sibling field (the ObjectUpdate State pattern)
        return se.Template({
            "kind": se.U8,
            "body": se.ContextAdapter(lambda ctx: ctx.kind, se.U8, {0: se.IntEnum(E1), 1: se.IntFlag(F1), se.MISSING: se.IdentityAdapter()}),
        })
    if k == "quant":
        return se.QuantizedFloat(PRIMS[d["p"]], d["lo"], d["hi"])
    if k == "vec3":
        return se.Vector3
    if k == "quant_vec":
        return getattr(se, d["cls"])(d["lo"], d["hi"])
    if k == "fixed_point":
        return se.FixedPoint(PRIMS[d["p"]], d["ib"], d["fb"], signed=d["signed"])
    if k in ("tuple", "tuple_fixed"):
        return se.Tuple(*kids)
    if k == "template":
        return se.Template({"m%d" % i: s for i, s in enumerate(kids)}, skip_missing=d["skip_missing"])
    if k == "collection_prefixed":
        return se.Collection(PRIMS[d["len"]], kids[0])
    if k == "collection_fixed":
        return se.Collection(d["n"], kids[0])
    if k == "collection_greedy":
        return se.Collection(None, kids[0])
    if k == "optional_prefixed":
        return se.OptionalPrefixed(kids[0])
    if k == "if_present":
        return se.IfPresent(kids[0])
    if k == "length_switch":
        opts = {_fixed_size(c): s for c, s in zip(d["c"], kids)}
        if d["default"]:
            first = next(iter(opts))
            opts[None] = opts.pop(first)
        return se.LengthSwitch(opts)
    if k == "enum_switch":
        return se.EnumSwitch(se.IntEnum(E1, se.U8), {E1[m]: s for m, s in zip(d["members"], kids)})
    if k == "flag_switch":
        return se.FlagSwitch(se.IntFlag(F1, se.U8), {F1[m]: s for m, s in zip(d["members"], kids)})
    if k == "typed_byte_array":
        return se.TypedByteArray(PRIMS[d["len"]], kids[0], empty_is_none=d["empty_is_none"], lazy=d["lazy"])
    if k == "typed_bytes_fixed":
        return se.TypedBytesFixed(_fixed_size(d["c"][0]), kids[0], lazy=d["lazy"])
    if k == "typed_bytes_greedy":
        return se.TypedBytesGreedy(kids[0], empty_is_none=d["empty_is_none"], lazy=d["lazy"])
    if k == "dataclass":
        fields = []
        for i, s in enumerate(kids):
            f = se.dataclass_field(s)
            if f.default is dataclasses.MISSING and f.default_factory is dataclasses.MISSING:
                f = se.dataclass_field(s, default=None)
            fields.append(("m%d" % i, object, f))
        dc = dataclasses.make_dataclass("GenDC", fields)
        d["_dc"] = dc
        return se.Dataclass(dc)
    if k == "dict_adapter":
        return se.DictAdapter(se.Collection(se.U8, se.Tuple(se.U16, kids[0])))
    if k == "ctx_template":
        return se.Template({
            "kind": se.U8,
            "body": se.ContextSwitch(lambda ctx: ctx.kind, {0: kids[0], 1: kids[1]}),
            "tail": kids[2],
        })
    if k == "ctx_typed_template":
        # the context-dependent member sits inside a length-prefixed byte window and is keyed on a sibling OUTSIDE that window
        return se.Template({
            "kind": se.U8,
            "body": se.TypedByteArray(se.U16, se.ContextSwitch(lambda ctx: ctx.kind, {0: kids[0], 1: kids[1]}), lazy=False),
            "tail": kids[2],
        })
    if k == "ctx_tuple_template":
        # the context-dependent member sits inside a Tuple and looks at a field of the enclosing template (one level up)
        return se.Template({
            "kind": se.U8,
            "body": se.Tuple(se.ContextSwitch(lambda ctx: ctx._.kind, {0: kids[0], 1: kids[1]}), se.U8),
            "tail": kids[2],
        })
    if k == "flagged_template":
        flag_spec = se.U8 if d["flagspec"] == "prim" else se.IntFlag(F1, se.U8)
        return se.Template({
            "flags": flag_spec,
            "opt": se.OptionalFlagged("flags", flag_spec, 0x02, kids[0]),
            "tail": kids[1],
        })
    raise ValueError(k)


# -------------------------------------------------------------------------------------------------
# value strategies (plain data)
# -------------------------------------------------------------------------------------------------
TEXT = st.text(st.one_of(st.characters(min_codepoint=0x20, max_codepoint=0x7E), st.sampled_from(list("é中\U0001F600\n\t"))), max_size=12)


def _fit_utf8(s, n):
    while len(s.encode("utf8")) > n:
        s = s[:-1]
    return s


def values(d):
    k = d["k"]
    kids = d.get("c", [])
    if k == "prim":
        return ints(*prim_range(d["p"]))
    if k == "f32":
        return F32S
    if k == "f64":
        return F64S
    if k == "bytes_fixed":
        return st.binary(min_size=d["n"], max_size=d["n"])
    if k == "byte_array":
        return st.one_of(st.binary(max_size=20), st.sampled_from([b"", bytes(255)]) if d["len"] != "U8" else st.binary(min_size=255, max_size=255))
    if k == "bytes_greedy":
        return st.binary(max_size=12)
    if k == "bytes_term":
        bad = b"".join(d["terms"])
        return st.binary(max_size=12).map(lambda b: bytes(x for x in b if x not in bad))
    if k == "str":
        cap = min(prim_range(d["len"])[1], 300) - (1 if d["null_term"] else 0)
        return TEXT.map(lambda s: _fit_utf8(s.replace("\x00", ""), cap))
    if k == "str_fixed":
        return TEXT.map(lambda s: _fit_utf8(s.replace("\x00", ""), d["n"]))
    if k == "cstr":
        return TEXT.map(lambda s: s.replace("\x00", ""))
    if k == "uuid":
        return st.integers(0, 2 ** 128 - 1).map(lambda i: "%032x" % i)
    if k == "int_enum":
        lo, hi = prim_range(d["p"])
        members = st.sampled_from([int(m) for m in E1 if lo <= int(m) <= hi])
        return members if d["strict"] else st.one_of(members, st.integers(max(lo, 0), hi))
    if k == "int_flag":
        return ints(*prim_range(d["p"]))       # on a signed field the sign bit is one more bit no member names
    if k in ("bitfield", "bitfield_dc"):
        return st.tuples(*[st.integers(0, (1 << b) - 1) for b in d["bits"]]).map(list)
    if k == "bool":
        return st.booleans()
    if k == "expr":
        return st.integers(1000, 1000 + 0xFFFF)
    if k == "string_enum":
        return st.sampled_from(["foo", "bar baz"])
    if k == "ctx_adapter":
        return st.tuples(st.integers(0, 2), st.one_of(st.integers(0, 255), st.sampled_from([0, 1, 5, 255, 3, 0x8B]))).map(list)
    if k == "quant":
        return ints(*prim_range(d["p"]))          # the raw value; the float is derived from it
    if k == "vec3":
        return st.tuples(F32S, F32S, F32S)
    if k == "quant_vec":
        n = {"Vector3U16": 3, "Vector4U16": 4, "Vector3U8": 3, "Vector2U16": 2}[d["cls"]]
        hi = 0xFF if d["cls"].endswith("U8") else 0xFFFF
        return st.tuples(*[ints(0, hi)] * n)
    if k == "fixed_point":
        return ints(0, prim_range(d["p"])[1])
    if k in ("tuple", "tuple_fixed", "template", "dataclass"):
        return st.tuples(*[values(c) for c in kids]).map(list)
    if k in ("collection_prefixed", "collection_greedy"):
        return st.lists(values(kids[0]), max_size=4)
    if k == "collection_fixed":
        return st.lists(values(kids[0]), min_size=d["n"], max_size=d["n"])
    if k in ("optional_prefixed", "if_present"):
        return st.one_of(st.none(), values(kids[0]).map(lambda v: [v]))
    if k == "length_switch":
        return st.integers(0, len(kids) - 1).flatmap(lambda i: values(kids[i]).map(lambda v: [i, v]))
    if k == "enum_switch":
        return st.integers(0, len(kids) - 1).flatmap(lambda i: values(kids[i]).map(lambda v: [i, v]))
    if k == "flag_switch":
        return st.tuples(*[st.one_of(st.none(), values(c).map(lambda v: [v])) for c in kids]).map(list)
    if k in ("typed_byte_array", "typed_bytes_greedy"):
        inner = values(kids[0]).map(lambda v: [v])
        return st.one_of(st.none(), inner) if d["empty_is_none"] else inner
    if k == "typed_bytes_fixed":
        return values(kids[0]).map(lambda v: [v])
    if k == "dict_adapter":
        return st.dictionaries(st.integers(0, 0xFFFF), values(kids[0]), max_size=3).map(lambda m: [[a, b] for a, b in m.items()])
    if k == "ctx_template":
        return st.integers(0, 1).flatmap(lambda i: st.tuples(values(kids[i]), values(kids[2])).map(lambda t: [i, t[0], t[1]]))
    if k == "ctx_typed_template":
        return st.integers(0, 1).flatmap(lambda i: st.tuples(values(kids[i]), values(kids[2])).map(lambda t: [i, t[0], t[1]]))
    if k == "ctx_tuple_template":
        return st.integers(0, 1).flatmap(lambda i: st.tuples(values(kids[i]), values(kids[2]), st.integers(0, 255)).map(lambda t: [i, t[0], t[1], t[2]]))
    if k == "flagged_template":
        return st.tuples(st.integers(0, 255), values(kids[0]), values(kids[1])).map(list)
    raise ValueError(k)


# -------------------------------------------------------------------------------------------------
# rich value for writing, expected normalised value for reading
# -------------------------------------------------------------------------------------------------
def _quant(d, spec, raw):
    return spec.decode(raw, None)


def rich(d, v, spec=None, pod=False, reading=False):
    """the value handed to the writer.  `pod`: use the plain-data forms the reader returns in pod mode."""
    k = d["k"]
    kids = d.get("c", [])
    if k in ("prim", "f32", "f64", "bytes_fixed", "byte_array", "bytes_greedy", "bytes_term", "str", "str_fixed", "cstr", "bool", "expr"):
        return v
    if k == "uuid":
        return str(dtypes.UUID(v)) if pod else dtypes.UUID(v)
    if k == "int_enum":
        if v in [int(m) for m in E1]:
            return E1(v).name if pod else E1(v)
        return v
    if k == "int_flag":
        # the flag class cannot hold a negative number without changing its value: those stay integers in object form
        return flags_pod_ref(F1, v) if pod else (F1(v) if v >= 0 else v)
    if k == "string_enum":
        return v if pod else SE1(v)
    if k == "ctx_adapter":
        kind, raw = v
        if kind == 0:
            body = (E1(raw).name if pod else E1(raw)) if raw in [int(m) for m in E1] else raw
        elif kind == 1:
            body = flags_pod_ref(F1, raw) if pod else F1(raw)
        else:
            body = raw
        return {"kind": kind, "body": body}
    if k == "bitfield":
        return _bitfield_vals(d, v)
    if k == "bitfield_dc":
        vals = _bitfield_vals(d, v)
        return vals if pod else d["_dc"](**vals)
    if k == "quant":
        return build(d).decode(v, None)
    if k == "vec3":
        vals = tuple(f32(x) for x in v)
        return vals if pod else dtypes.Vector3(*vals)
    if k == "quant_vec":
        spec = build(d)
        comps = tuple(s.decode(r, None) for s, r in zip(spec._elem_specs, v))
        return comps if pod else spec.COORD_CLS(*comps)
    if k == "fixed_point":
        off = (1 << d["ib"]) if d["signed"] else 0
        return v / (1 << d["fb"]) - off
    if k in ("tuple", "tuple_fixed"):
        return [rich(c, x, pod=pod, reading=reading) for c, x in zip(kids, v)]
    if k == "template":
        out = {}
        for i, (c, x) in enumerate(zip(kids, v)):
            rv = rich(c, x, pod=pod, reading=reading)
            # documented read shape: optional members that read back as None are left out with skip_missing
            if reading and d["skip_missing"] and c["k"] == "optional_prefixed" and rv is None:
                continue
            out["m%d" % i] = rv
        return out
    if k == "dataclass":
        vals = {"m%d" % i: rich(c, x, pod=pod, reading=reading) for i, (c, x) in enumerate(zip(kids, v))}
        return vals if pod else d["_dc"](**vals)
    if k in ("collection_prefixed", "collection_fixed", "collection_greedy"):
        return [rich(kids[0], x, pod=pod, reading=reading) for x in v]
    if k in ("optional_prefixed", "if_present"):
        return None if v is None else rich(kids[0], v[0], pod=pod, reading=reading)
    if k == "length_switch":
        size = _fixed_size(kids[v[0]])
        inner = rich(kids[v[0]], v[1], pod=pod, reading=reading)
        return (size, inner) if pod else dtypes.TaggedUnion(size, inner)
    if k == "enum_switch":
        member = E1[d["members"][v[0]]]
        inner = rich(kids[v[0]], v[1], pod=pod, reading=reading)
        return (member.name, inner) if pod else dtypes.TaggedUnion(member, inner)
    if k == "flag_switch":
        out = {}
        triples = list(zip(d["members"], kids, v))
        if not reading:
            triples.reverse()       # a dict's key order is not part of its value: write it in non-spec order
        for m, c, x in triples:
            if x is not None:
                out[m if pod else F1[m]] = rich(c, x[0], pod=pod, reading=reading)
        return out
    if k in ("typed_byte_array", "typed_bytes_fixed", "typed_bytes_greedy"):
        return None if v is None else rich(kids[0], v[0], pod=pod, reading=reading)
    if k == "dict_adapter":
        return {a: rich(kids[0], b, pod=pod, reading=reading) for a, b in v}
    if k == "ctx_template":
        return {"kind": v[0], "body": rich(kids[v[0]], v[1], pod=pod, reading=reading), "tail": rich(kids[2], v[2], pod=pod, reading=reading)}
    if k == "ctx_typed_template":
        return {"kind": v[0], "body": rich(kids[v[0]], v[1], pod=pod, reading=reading), "tail": rich(kids[2], v[2], pod=pod, reading=reading)}
    if k == "ctx_tuple_template":
        return {"kind": v[0], "body": (rich(kids[v[0]], v[1], pod=pod, reading=reading), v[3]), "tail": rich(kids[2], v[2], pod=pod, reading=reading)}
    if k == "flagged_template":
        flags = v[0]
        if d["flagspec"] == "int_flag":
            flags = flags_pod_ref(F1, v[0]) if pod else F1(v[0])
        opt = rich(kids[0], v[1], pod=pod, reading=reading) if v[0] & 0x02 else None
        return {"flags": flags, "opt": opt, "tail": rich(kids[1], v[2], pod=pod, reading=reading)}
    raise ValueError(k)


def _bitfield_vals(d, v):
    out = {}
    cur = 0
    for i, (b, x) in enumerate(zip(d["bits"], v)):
        out["f%d" % i] = x if d["shift"] else (x << cur)
        cur += b
    return out


def expected(d, v, pod):
    """normalised form of what read() must return"""
    return norm(rich(d, v, pod=pod, reading=True))


def norm(o):
    while isinstance(o, lazy_object_proxy.Proxy):
        o = o.__wrapped__
    if isinstance(o, dtypes.UUID):
        return ("UUID", o.hex)
    if isinstance(o, enum.Enum):
        return ("ENUM", type(o).__name__, o.value)
    if isinstance(o, dtypes.TaggedUnion):
        return ["TU"] + [norm(x) for x in o]
    if isinstance(o, dtypes.TupleCoord):
        return ("COORD", type(o).__name__) + tuple(norm(x) for x in o)
    if dataclasses.is_dataclass(o) and not isinstance(o, type):
        return {"__dc__": {f.name: norm(getattr(o, f.name)) for f in dataclasses.fields(o)}}
    if isinstance(o, dict):
        return {repr(norm(k)) if not isinstance(k, (str, int)) else k: norm(v) for k, v in o.items()}
    if isinstance(o, (list, tuple)):
        return [norm(x) for x in o]
    if isinstance(o, np.ndarray):
        return norm(o.tolist())
    if isinstance(o, (bytes, bytearray, memoryview)):
        return bytes(o)
    if isinstance(o, float):
        return ("F", struct.pack("<d", o))
    if isinstance(o, bool):
        return ("B", o)
    return o


def kinds_in(d, acc=None):
    acc = set() if acc is None else acc
    acc.add(d["k"])
    for c in d.get("c", []):
        kinds_in(c, acc)
    return acc


def depth_of(d):
    return 1 + max([depth_of(c) for c in d.get("c", [])], default=0)


def strip(d):
    """description without the cached generated classes (for samples / replay files)"""
    out = {k: v for k, v in d.items() if not k.startswith("_") and k != "c"}
    if "c" in d:
        out["c"] = [strip(c) for c in d["c"]]
    return out
