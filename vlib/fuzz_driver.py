"""Coverage-guided campaign driver (atheris / libFuzzer), run as a subprocess by vlib.fuzz.run_campaign:

    python -m vlib.fuzz_driver <check module> <out.json> [libFuzzer args ... corpus_dir]

The check module provides fuzz_one(data: bytes) -> (results, nontrivial) with the semantic oracle inside the target, and
FUZZ_INSTRUMENT (package prefixes to instrument).  Failures do not stop the campaign: they are recorded by signature (smallest
input kept) so that the search continues behind a shallow defect.  Exit 3 = atheris not importable."""
import importlib
import json
import logging
import os
import sys


def main():
    mod_name, out_path = sys.argv[1], sys.argv[2]
    try:
        import atheris
    except Exception:
        sys.exit(3)
    logging.disable(logging.CRITICAL)
    probe = importlib.util.find_spec(mod_name)
    if probe is None:
        sys.exit(4)
    # instrument the code under test only; it must not have been imported before this point
    include = ["hippolyzer"]
    with atheris.instrument_imports(include=include):
        mod = importlib.import_module(mod_name)
    state = {"execs": 0, "nontrivial": 0, "sigs": {}, "classes": {}}

    def flush():
        tmp = out_path + ".tmp"
        with open(tmp, "w") as f:
            json.dump(state, f)
        os.replace(tmp, out_path)

    def one(data):
        state["execs"] += 1
        try:
            res, nontrivial, classes = mod.fuzz_one(bytes(data))
        except BaseException as e:       # a harness exception is recorded, never turned into a libFuzzer crash
            res, nontrivial, classes = [("fuzz:harness-exception:%s" % type(e).__name__, repr(e)[:500])], False, ()
        if nontrivial:
            state["nontrivial"] += 1
        for c in classes:
            state["classes"][c] = state["classes"].get(c, 0) + 1
        new = False
        for sig, msg in res:
            cur = state["sigs"].get(sig)
            if cur is None or len(data) * 2 < len(cur["data"]):
                state["sigs"][sig] = {"msg": str(msg)[:1000], "data": bytes(data).hex(), "count": (cur or {}).get("count", 0)}
                new = True
            state["sigs"][sig]["count"] += 1
        if new or state["execs"] % 500 == 0:
            flush()

    flush()
    atheris.Setup([sys.argv[0]] + sys.argv[3:], one)
    atheris.Fuzz()


if __name__ == "__main__":
    main()
