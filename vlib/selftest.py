"""Sensitivity self-test (not a manifest command):  ./check --selftest C07 [--tier quick] [--seeds 1,2,3]

For every patch under mutants/<id>/*.patch and seeded/<id>*/patch.diff: copy the repository working tree to a
scratch directory outside /repo and /verif, apply the patch, run the property's check against the copy
(VERIF_REPO) and require exit 1 (a VIOLATION line).  Then run the unchanged tree at the given seeds and
require exit 0.  Scratch copies are removed immediately."""
import argparse
import glob
import json
import os
import shutil
import subprocess
import sys
import tempfile
import time

VERIF_DIR = os.path.dirname(os.path.dirname(os.path.abspath(__file__)))
REPO = os.environ.get("VERIF_REPO", "/repo")


def patches_for(prop):
    out = sorted(glob.glob(os.path.join(VERIF_DIR, "mutants", prop, "*.patch")))
    for d in sorted(glob.glob(os.path.join(VERIF_DIR, "seeded", "*"))):
        meta = os.path.join(d, "meta.json")
        if os.path.exists(meta):
            with open(meta) as f:
                m = json.load(f)
            if m.get("property") == prop and os.path.exists(os.path.join(d, "patch.diff")):
                out.append(os.path.join(d, "patch.diff"))
    return out


def run_check(prop, tier, repo, seed, extra=()):
    env = dict(os.environ, VERIF_REPO=repo, VERIF_SEED=str(seed))
    if repo != REPO:
        env["VERIF_FAILFAST"] = "1"     # a patched tree only has to be caught: stop at the first shard that reports a violation
    else:
        env.pop("VERIF_FAILFAST", None)
    t0 = time.time()
    p = subprocess.run([os.path.join(VERIF_DIR, "check"), prop, "--tier", tier, "--no-evidence", *extra],
                       env=env, capture_output=True, text=True)
    return p.returncode, p.stdout + p.stderr, time.time() - t0


def with_patch(patch, fn):
    tmp = tempfile.mkdtemp(prefix="verif-mut-", dir="/tmp")
    try:
        tree = os.path.join(tmp, "repo")
        shutil.copytree(REPO, tree, ignore=shutil.ignore_patterns(".git", "__pycache__", "*.pyc", ".pytest_cache"))
        p = subprocess.run(["patch", "-p1", "-s", "-i", patch], cwd=tree, capture_output=True, text=True)
        if p.returncode != 0:
            return ("patch-failed", p.stdout + p.stderr)
        return fn(tree)
    finally:
        shutil.rmtree(tmp, ignore_errors=True)


def main():
    ap = argparse.ArgumentParser()
    ap.add_argument("props", nargs="+")
    ap.add_argument("--tier", default="quick")
    ap.add_argument("--seeds", default="1")
    ap.add_argument("--mutant-seed", default="1")
    ap.add_argument("--only", help="substring filter on the patch path")
    ap.add_argument("--skip-clean", action="store_true")
    ap.add_argument("--tests", action="store_true", help="also run the repository test-suite on each mutant")
    ap.add_argument("--record", action="store_true", help="write sensitivity/<ID>.json (which patch was caught, by which signature)")
    a = ap.parse_args()
    ok = True
    for prop in [p.upper() for p in a.props]:
        record = {"property": prop, "tier": a.tier, "mutant_seed": a.mutant_seed, "patches": [], "unchanged_tree": []}
        for patch in patches_for(prop):
            if a.only and a.only not in patch:
                continue

            def go(tree):
                res = {}
                if a.tests:
                    t = subprocess.run(["/venv/bin/python", "-m", "pytest", "-q", "-x", "-p", "no:cacheprovider",
                                        "--timeout=900", "tests", "--deselect",
                                        "tests/proxy/integration/test_http.py::TestMITMProxy::test_mitmproxy_works"],
                                       cwd=tree, env=dict(os.environ, PYTHONPATH=tree), capture_output=True, text=True)
                    res["tests_rc"] = t.returncode
                    res["tests_tail"] = t.stdout.strip().splitlines()[-1:] if t.stdout else []
                rc, out, wall = run_check(prop, a.tier, tree, a.mutant_seed)
                res.update(rc=rc, wall=wall, out=out)
                return res
            r = with_patch(patch, go)
            rel = os.path.relpath(patch, VERIF_DIR)
            if isinstance(r, tuple):
                print("%-60s PATCH-FAILED %s" % (rel, r[1][:200]))
                ok = False
                continue
            verdict = "CAUGHT" if r["rc"] == 1 else ("MISSED" if r["rc"] == 0 else "HARNESS-ERROR(rc=%d)" % r["rc"])
            sigs = [l for l in r["out"].splitlines() if l.startswith("violation detail")]
            print("%-60s %s %.0fs %s %s" % (rel, verdict, r["wall"], ("tests_rc=%s %s" % (r.get("tests_rc"), r.get("tests_tail"))) if a.tests else "",
                                            (sigs[0][:160] if sigs else "")))
            record["patches"].append({"patch": rel, "verdict": verdict, "wall_s": round(r["wall"], 1),
                                      "signatures": sorted({l.split("]")[0].split("[", 1)[-1] for l in sigs})[:12]})
            if r["rc"] != 1:
                ok = False
                if r["rc"] == 2:
                    print("\n".join(l for l in r["out"].splitlines() if "HARNESS" in l or "Error" in l)[:1500])
        if not a.skip_clean:
            for seed in a.seeds.split(","):
                rc, out, wall = run_check(prop, a.tier, REPO, seed)
                print("%-60s %s %.0fs" % ("%s unchanged tree seed=%s" % (prop, seed), "QUIET" if rc == 0 else "ALARM rc=%d" % rc, wall))
                record["unchanged_tree"].append({"seed": int(seed), "rc": rc, "wall_s": round(wall, 1)})
                if rc != 0:
                    ok = False
                    print("\n".join(l for l in out.splitlines() if l.startswith(("VIOLATION", "violation", "HARNESS")))[:3000])
        if a.record and a.only:
            # merge the patches just run into the committed record (the unchanged-tree part stays what the last full run recorded)
            path = os.path.join(VERIF_DIR, "sensitivity", prop + ".json")
            if os.path.exists(path):
                with open(path) as f:
                    old = json.load(f)
                ran = {p["patch"] for p in record["patches"]}
                old["patches"] = [p for p in old["patches"] if p["patch"] not in ran] + record["patches"]
                old["patches"].sort(key=lambda p: p["patch"])
                with open(path, "w") as f:
                    json.dump(old, f, indent=1)
        if a.record and not a.only:
            os.makedirs(os.path.join(VERIF_DIR, "sensitivity"), exist_ok=True)
            with open(os.path.join(VERIF_DIR, "sensitivity", prop + ".json"), "w") as f:
                json.dump(record, f, indent=1)
    return 0 if ok else 1


if __name__ == "__main__":
    sys.exit(main())
