"""Runner shared by all property checks.

A check module (checks/cNN.py) provides:
    PROPERTY, LEVEL, RULE, ASSUMPTIONS            metadata
    shards(tier) -> list[dict]                    work units (plain data), executed in parallel
    run_shard(ctx, shard)                         executes a unit; reports through ctx
    replay(ctx, case) -> list[(signature, msg)]   re-runs ONE case (plain data) without Hypothesis
    FLOORS = {tier: {class: minimum}}             optional anti-vacuity floors on class counters
    EXHAUSTIVE = {tier: bool}                     optional

Exit codes: 0 held (KNOWN-FINDING lines allowed), 1 unlisted violation, 2 harness error.
"""
import argparse
import hashlib
import importlib
import json
import multiprocessing
import os
import signal
import sys
import time
import traceback
from collections import Counter

from . import jsonx

VERIF_DIR = os.path.dirname(os.path.dirname(os.path.abspath(__file__)))
KNOWN_FILE = os.path.join(VERIF_DIR, "known_findings.json")
MAX_SAMPLES = 5


class HarnessError(Exception):
    pass


class CaseTimeout(BaseException):
    pass


class _StopShrink(BaseException):
    pass


CASE_TIMEOUT_S = 60


def _digest(obj) -> bytes:
    return hashlib.blake2b(repr(obj).encode("utf8", "surrogatepass"), digest_size=8).digest()


def load_known(prop):
    if not os.path.exists(KNOWN_FILE):
        return [], []
    with open(KNOWN_FILE) as f:
        data = json.load(f)
    opens = [e for e in data.get("open", []) if e["property"] == prop]
    fixed = [e for e in data.get("fixed", []) if ("property=%s " % prop) in e]
    return opens, fixed


class Ctx:
    """Per-shard reporting context (also used, single-process, for replays)."""

    def __init__(self, prop, tier, seed, shard_idx=0, known_sigs=()):
        self.prop = prop
        self.tier = tier
        self.seed = seed
        self.shard_idx = shard_idx
        self.known_sigs = set(known_sigs)
        self.hseed = int.from_bytes(hashlib.blake2b(
            ("%s/%d/%d" % (prop, seed, shard_idx)).encode(), digest_size=6).digest(), "big")
        self.evaluations = 0
        self.bulk_nontrivial = 0
        self.digests = set()
        self.classes = Counter()
        self.samples = []
        self.violations = {}   # sig -> dict(sig,msg,case,size)
        self.known_hits = Counter()
        self.muted = False
        self.timeouts = 0
        self.notes = []

    # ---- counting ----
    def case(self, case, nontrivial=True, classes=()):
        if self.muted:
            return
        self.evaluations += 1
        for c in classes:
            self.classes[c] += 1
        if nontrivial:
            d = _digest(case)
            if d not in self.digests:
                self.digests.add(d)
                if len(self.samples) < MAX_SAMPLES and (len(self.digests) in (1, 7, 50, 300, 1500)):
                    self.samples.append(jsonx.brief(case))

    def bulk(self, evaluations, distinct_nontrivial, classes=None, sample=None):
        """For enumerations whose cases are distinct by construction."""
        if self.muted:
            return
        self.evaluations += evaluations
        self.bulk_nontrivial += distinct_nontrivial
        for k, v in (classes or {}).items():
            self.classes[k] += v
        if sample is not None and len(self.samples) < MAX_SAMPLES:
            self.samples.append(jsonx.brief(sample))

    def count(self, cls, n=1):
        if not self.muted:
            self.classes[cls] += n

    # ---- violations ----
    def fail(self, sig, msg, case):
        if self.muted:
            return
        if sig in self.known_sigs:
            self.known_hits[sig] += 1
            return
        size = len(repr(case))
        cur = self.violations.get(sig)
        if cur is None or size < cur["size"]:
            self.violations[sig] = {"sig": sig, "msg": str(msg)[:2000], "case": case, "size": size,
                                    "count": (cur["count"] if cur else 0)}
        self.violations[sig]["count"] += 1

    def report(self, case, results):
        for sig, msg in results:
            self.fail(sig, msg, case)

    def result(self):
        return {
            "evaluations": self.evaluations,
            "bulk_nontrivial": self.bulk_nontrivial,
            "digests": b"".join(sorted(self.digests)),
            "classes": dict(self.classes),
            "samples": self.samples,
            "violations": {k: {**v, "case": jsonx.enc(v["case"])} for k, v in self.violations.items()},
            "known_hits": dict(self.known_hits),
            "notes": self.notes,
        }


# ---------------------------------------------------------------------------------------------
# Hypothesis helper: collect-then-shrink
# ---------------------------------------------------------------------------------------------

def hyp_run(ctx, strategy, body, n, shrink_calls=400, shrink_seconds=15.0, label="") -> None:
    """Run `body(case) -> iterable[(sig, msg)]` over `n` generated cases.  Failures are collected by
    signature (generation continues behind them); each *unlisted* signature is then shrunk with a
    second, signature-restricted Hypothesis run whose minimal example becomes the replay case."""
    from hypothesis import given, settings, seed, HealthCheck, Phase
    import hypothesis.errors

    if n <= 0:
        return
    found_here = set()

    def _alarm(signum, frame):
        raise CaseTimeout()

    def run_body(case):
        # a single generated case normally takes milliseconds; one that is still running after CASE_TIMEOUT_S is
        # reported as suspected non-termination of the code under test (the alarm cannot fire for any other reason)
        if ctx.timeouts >= 3:
            return []       # the shard already demonstrated non-termination three times; do not sit through more
        limit = CASE_TIMEOUT_S if not ctx.timeouts else 15
        old = signal.signal(signal.SIGALRM, _alarm)
        signal.setitimer(signal.ITIMER_REAL, limit)
        try:
            return list(body(case))
        except CaseTimeout:
            ctx.timeouts += 1
            return [("non-termination:%s" % (label or ctx.prop), "a single case was still running after %ds" % limit)]
        finally:
            signal.setitimer(signal.ITIMER_REAL, 0)
            signal.signal(signal.SIGALRM, old)

    @seed(ctx.hseed)
    @settings(max_examples=n, database=None, deadline=None, phases=[Phase.generate],
              suppress_health_check=list(HealthCheck), report_multiple_bugs=False, derandomize=False)
    @given(strategy)
    def collect(case):
        for sig, msg in run_body(case):
            if sig not in ctx.known_sigs:
                found_here.add(sig)
            ctx.fail(sig, msg, case)

    collect()

    t_all = time.time()
    if shrink_seconds <= 0:
        found_here = set()
    for n_shrunk, sig in enumerate(sorted(found_here)):
        if n_shrunk >= 4 or time.time() - t_all > 3 * shrink_seconds:
            break       # many signatures at once (typically one root cause): keep the unshrunk cases for the rest
        calls = [0]
        best = [None]

        class _Found(Exception):
            pass

        @seed(ctx.hseed)
        @settings(max_examples=n, database=None, deadline=None, phases=[Phase.generate, Phase.shrink],
                  suppress_health_check=list(HealthCheck), report_multiple_bugs=False, derandomize=False)
        @given(strategy)
        def shrink(case):
            calls[0] += 1
            if calls[0] > n + shrink_calls or time.time() - t_shrink > shrink_seconds:
                raise _StopShrink()      # shrink budget spent: the smallest failing case seen so far is kept
            for s, _ in run_body(case):
                if s == sig:
                    best[0] = case
                    raise _Found()

        ctx.muted = True
        t_shrink = time.time()
        try:
            shrink()
        except (_Found, _StopShrink):
            pass
        except Exception:   # shrinking is best-effort; the unshrunk case is already recorded
            ctx.notes.append("shrink of %s failed: %s" % (sig, traceback.format_exc(limit=2)))
        finally:
            ctx.muted = False
        if best[0] is not None and len(repr(best[0])) <= ctx.violations[sig]["size"]:
            ctx.violations[sig]["case"] = best[0]
            ctx.violations[sig]["size"] = len(repr(best[0]))
            ctx.violations[sig]["shrunk"] = True


# ---------------------------------------------------------------------------------------------

def _load(prop):
    return importlib.import_module("checks.%s" % prop.lower())


def _worker(args):
    prop, tier, seed, idx, shard, known_sigs = args
    try:
        import logging
        logging.disable(logging.CRITICAL)      # the library logs every parse failure; checks that observe logs re-enable it
        mod = _load(prop)
        ctx = Ctx(prop, tier, seed, idx, known_sigs)
        t0 = time.time()
        mod.run_shard(ctx, shard)
        res = ctx.result()
        res["wall_s"] = time.time() - t0
        res["shard"] = shard
        return res
    except BaseException:
        return {"harness_error": traceback.format_exc(), "shard": shard}


def _write_replay(prop, v):
    d = os.path.join(VERIF_DIR, "replays", prop)
    os.makedirs(d, exist_ok=True)
    name = hashlib.blake2b(v["sig"].encode(), digest_size=6).hexdigest() + ".json"
    path = os.path.join(d, name)
    with open(path, "w") as f:
        json.dump({"property": prop, "signature": v["sig"], "message": v["msg"],
                   "shrunk": bool(v.get("shrunk")), "case": v["case"]}, f, indent=1)
    return path


def _replay_file(mod, prop, tier, seed, path):
    with open(path) as f:
        rec = json.load(f)
    case = jsonx.dec(rec["case"])
    ctx = Ctx(prop, tier, seed)
    return rec, list(mod.replay(ctx, case))


def main(argv=None):
    ap = argparse.ArgumentParser()
    ap.add_argument("prop")
    ap.add_argument("--tier", default=os.environ.get("VERIF_TIER", "quick"), choices=["quick", "thorough"])
    ap.add_argument("--replay")
    ap.add_argument("--jobs", type=int, default=int(os.environ.get("VERIF_JOBS", "16")))
    ap.add_argument("--only", help="run only shards whose 'kind' equals this (debugging; no evidence)")
    ap.add_argument("--no-evidence", action="store_true")
    a = ap.parse_args(argv)
    prop = a.prop.upper()
    seed = int(os.environ.get("VERIF_SEED", "1") or "1")
    import logging
    logging.disable(logging.CRITICAL)
    t0 = time.time()
    try:
        mod = _load(prop)
    except Exception:
        traceback.print_exc()
        print("HARNESS-ERROR property=%s cannot import check or repository" % prop)
        return 2

    opens, fixed = load_known(prop)
    known_sigs = [e["signature"] for e in opens]

    if a.replay:
        rec, res = _replay_file(mod, prop, a.tier, seed, a.replay)
        for sig, msg in res:
            print("replay: %s :: %s" % (sig, msg))
        want = rec.get("signature")
        if any(s == want for s, _ in res) or (want is None and res):
            print("VIOLATION property=%s replay=%s" % (prop, os.path.abspath(a.replay)))
            return 1
        print("replay: case does not violate %s (signature %r not reproduced)" % (prop, want))
        return 0

    harness_errors = []
    violations = {}
    known_seen = Counter()

    # ---- tier 0: committed regression cases + known-finding cases (seconds) ----
    regress_dir = os.path.join(VERIF_DIR, "regressions", prop)
    n_regress = 0
    if os.path.isdir(regress_dir) and not a.only:
        for fn in sorted(os.listdir(regress_dir)):
            if not fn.endswith(".json"):
                continue
            n_regress += 1
            try:
                rec, res = _replay_file(mod, prop, a.tier, seed, os.path.join(regress_dir, fn))
            except Exception:
                harness_errors.append("regression %s: %s" % (fn, traceback.format_exc()))
                continue
            for sig, msg in res:
                if sig in known_sigs:
                    known_seen[sig] += 1
                else:
                    violations.setdefault(sig, {"sig": sig, "msg": msg, "case": rec["case"], "size": 0,
                                                "count": 1, "from_regression": fn})
    known_repro = {}
    for e in opens:
        if "case" in e and not a.only:
            try:
                res = list(mod.replay(Ctx(prop, a.tier, seed), jsonx.dec(e["case"])))
                known_repro[e["signature"]] = any(s == e["signature"] for s, _ in res)
                for sig, msg in res:
                    if sig not in known_sigs:
                        violations.setdefault(sig, {"sig": sig, "msg": msg, "case": e["case"], "size": 0,
                                                    "count": 1})
            except Exception:
                harness_errors.append("known-finding replay %s: %s" % (e["signature"], traceback.format_exc()))

    # ---- generated search ----
    shards = mod.shards(a.tier)
    if a.only:
        shards = [s for s in shards if s.get("kind") == a.only]
    work = [(prop, a.tier, seed, i, s, known_sigs) for i, s in enumerate(shards)]
    results = []
    # VERIF_FAILFAST=1 (set by the sensitivity self-test for patched trees only): stop at the first shard that reports a violation
    failfast = os.environ.get("VERIF_FAILFAST") == "1"
    stopped_early = False
    if failfast and violations:
        work = []
        stopped_early = True
    if a.jobs <= 1 or len(work) <= 1:
        results = [_worker(w) for w in work]
    else:
        mpctx = multiprocessing.get_context("fork")
        with mpctx.Pool(min(a.jobs, len(work)), maxtasksperchild=1) as pool:
            for r in pool.imap_unordered(_worker, work, chunksize=1):
                results.append(r)
                if failfast and r.get("violations"):
                    stopped_early = True
                    pool.terminate()
                    break

    evaluations = 0
    bulk_nt = 0
    digests = set()
    classes = Counter()
    samples = []
    sample_lists = []
    notes = []
    shard_walls = []
    for r in results:
        if "harness_error" in r:
            harness_errors.append("shard %r: %s" % (r["shard"], r["harness_error"]))
            continue
        evaluations += r["evaluations"]
        bulk_nt += r["bulk_nontrivial"]
        blob = r["digests"]
        for i in range(0, len(blob), 8):
            digests.add(blob[i:i + 8])
        classes.update(r["classes"])
        sample_lists.append(r["samples"])
        for sig, v in r["violations"].items():
            cur = violations.get(sig)
            if cur is None or (v["size"] < cur["size"] and not cur.get("from_regression")):
                cnt = (cur["count"] if cur else 0) + v["count"]
                violations[sig] = dict(v, count=cnt)
            else:
                cur["count"] += v["count"]
        known_seen.update(r["known_hits"])
        notes.extend(r["notes"])
        shard_walls.append(round(r["wall_s"], 2))

    for rank in range(MAX_SAMPLES):     # interleave so samples come from different shards / generators
        for lst in sample_lists:
            if rank < len(lst) and len(samples) < MAX_SAMPLES * 2 and lst[rank] not in samples:
                samples.append(lst[rank])

    if hasattr(mod, "summarize"):
        mod.summarize(classes)

    # ---- floors (anti-vacuity) ----
    floors = getattr(mod, "FLOORS", {}).get(a.tier, {}) if not a.only and not stopped_early else {}
    for cls, minimum in floors.items():
        if classes.get(cls, 0) < minimum:
            harness_errors.append("class floor not met: %s = %d < %d" % (cls, classes.get(cls, 0), minimum))

    # ---- output ----
    for e in opens:
        sig = e["signature"]
        seen = known_seen.get(sig, 0)
        repro = known_repro.get(sig)
        if repro is False and not seen:
            print("NOTE: listed finding no longer reproduces: property=%s %s" % (prop, sig))
        else:
            print("KNOWN-FINDING: property=%s %s [%s] (seen %d times in generated search%s)" % (
                prop, e["what"], sig, seen, ", stored case reproduces" if repro else ""))
    rc = 0
    replay_paths = []
    for sig in sorted(violations):
        v = violations[sig]
        path = _write_replay(prop, v)
        replay_paths.append(path)
        print("violation detail: [%s] x%d: %s" % (sig, v["count"], v["msg"][:500]))
        print("VIOLATION property=%s replay=%s" % (prop, path))
        rc = 1
    for h in harness_errors:
        print("HARNESS-ERROR property=%s %s" % (prop, h))
    if harness_errors and rc == 0:
        rc = 2

    wall = time.time() - t0
    distinct_nt = len(digests) + bulk_nt
    if not a.no_evidence and not a.only:
        ev = {
            "property_id": prop,
            "tier": a.tier,
            "seed": seed,
            "level": mod.LEVEL,
            "coverage": {
                "evaluations": evaluations + n_regress,
                "distinct_nontrivial": distinct_nt,
                "rule": mod.RULE,
                "samples": samples or ["(no cases)"],
                "exhaustive": bool(getattr(mod, "EXHAUSTIVE", {}).get(a.tier, False)),
                "exhaustive_parts": getattr(mod, "EXHAUSTIVE_PARTS", {}).get(a.tier, []),
                "classes": dict(sorted(classes.items())),
                "shards": len(shards),
                "shard_wall_s": shard_walls,
                "regression_cases_replayed": n_regress,
                "known_findings_listed": [e["signature"] for e in opens],
                "excluded_known": int(sum(known_seen.values())),
                "violation_signatures": sorted(violations),
                "harness_errors": harness_errors,
                "notes": notes[:20],
                "repo": os.environ.get("VERIF_REPO", "/repo"),
            },
            "assumptions": list(mod.ASSUMPTIONS),
            "wall_s": round(wall, 2),
            "violations": len(violations),
        }
        os.makedirs(os.path.join(VERIF_DIR, "evidence"), exist_ok=True)
        with open(os.path.join(VERIF_DIR, "evidence", "%s.json" % prop), "w") as f:
            json.dump(ev, f, indent=1, sort_keys=False)
    print("%s tier=%s seed=%d: %d evaluations, %d distinct non-trivial, %d violation signature(s), "
          "%d known-finding hits, %.1fs -> exit %d" % (prop, a.tier, seed, evaluations, distinct_nt,
                                                       len(violations), sum(known_seen.values()), wall, rc))
    return rc


if __name__ == "__main__":
    sys.exit(main())
