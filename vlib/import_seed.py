"""Import sub-agent produced seeded changes after confirming them independently.

usage: python -m vlib.import_seed C04 /tmp/seed/out/C04 [--suffix b]

For each mN.diff + demoN.py + mN.json: in a scratch copy of /repo (outside /repo and /verif) confirm
  (a) the repository test-suite passes with the patch,
  (b) the demo fails with the patch, (c) the demo passes without it,
then store it as /verif/seeded/<ID>-mN/{patch.diff,demo.py,meta.json}.  Scratch copies are removed."""
import json
import os
import re
import shutil
import subprocess
import sys
import tempfile

VERIF_DIR = os.path.dirname(os.path.dirname(os.path.abspath(__file__)))
REPO = "/repo"
PY = "/venv/bin/python"
TESTS = [PY, "-m", "pytest", "-q", "-p", "no:cacheprovider", "--timeout=60", "tests", "--deselect",
         "tests/proxy/integration/test_http.py::TestMITMProxy::test_mitmproxy_works"]


def run(cmd, cwd, tree):
    env = dict(os.environ, PYTHONPATH=tree, PYTHONDONTWRITEBYTECODE="1")
    return subprocess.run(cmd, cwd=cwd, env=env, capture_output=True, text=True, timeout=1800)


def main():
    prop, src = sys.argv[1].upper(), sys.argv[2]
    suffix = sys.argv[4] if len(sys.argv) > 4 and sys.argv[3] == "--suffix" else ""
    for diff in sorted(f for f in os.listdir(src) if re.fullmatch(r"m\d+\.diff", f)):
        n = re.findall(r"\d+", diff)[0]
        demo = os.path.join(src, "demo%s.py" % n)
        info = {}
        if os.path.exists(os.path.join(src, "m%s.json" % n)):
            try:
                info = json.load(open(os.path.join(src, "m%s.json" % n)))
            except Exception:
                info = {}
        tmp = tempfile.mkdtemp(prefix="verif-seed-", dir="/tmp")
        try:
            clean = os.path.join(tmp, "clean")
            mut = os.path.join(tmp, "mut")
            ign = shutil.ignore_patterns(".git", "__pycache__", "*.pyc", ".pytest_cache")
            shutil.copytree(REPO, clean, ignore=ign)
            shutil.copytree(REPO, mut, ignore=ign)
            p = subprocess.run(["patch", "-p1", "-s", "-i", os.path.join(src, diff)], cwd=mut, capture_output=True, text=True)
            if p.returncode != 0:
                print(prop, diff, "PATCH FAILED", p.stdout, p.stderr)
                continue
            shutil.copy(demo, os.path.join(clean, "demo_seed.py"))
            shutil.copy(demo, os.path.join(mut, "demo_seed.py"))
            # the integration tests are timing-sensitive on a busy machine: a failing run is repeated (twice at most) and the
            # patch is kept only if a complete run passes
            for attempt in range(3):
                t = run(TESTS, mut, mut)
                tests_ok = t.returncode == 0
                tail = (t.stdout.strip().splitlines() or ["?"])[-1]
                if tests_ok:
                    break
            d_mut = run([PY, "demo_seed.py"], mut, mut)
            d_clean = run([PY, "demo_seed.py"], clean, clean)
            ok = tests_ok and d_mut.returncode != 0 and d_clean.returncode == 0
            print("%s m%s: tests_with_patch=%s (%s) demo_with_patch_rc=%d demo_clean_rc=%d -> %s" % (
                prop, n, tests_ok, tail, d_mut.returncode, d_clean.returncode, "KEEP" if ok else "REJECT"))
            if not ok:
                continue
            dst = os.path.join(VERIF_DIR, "seeded", "%s-m%s%s" % (prop, n, suffix))
            os.makedirs(dst, exist_ok=True)
            shutil.copy(os.path.join(src, diff), os.path.join(dst, "patch.diff"))
            shutil.copy(demo, os.path.join(dst, "demo.py"))
            meta = {
                "property": prop,
                "breaks": info.get("breaks", ""),
                "needs": info.get("needs", ""),
                "files": info.get("files", []),
                "origin": "independent sub-agent given only the property text and a scratch worktree",
                "confirmed": {
                    "how": "scratch copies of /repo under /tmp (removed afterwards): repository test-suite with the "
                           "patch; demo.py with and without the patch",
                    "tests_with_patch": tail,
                    "demo_with_patch_rc": d_mut.returncode,
                    "demo_without_patch_rc": d_clean.returncode,
                },
                "detected_by": None,
            }
            with open(os.path.join(dst, "meta.json"), "w") as f:
                json.dump(meta, f, indent=1)
        finally:
            shutil.rmtree(tmp, ignore_errors=True)


if __name__ == "__main__":
    main()
