"""Reflective value generator: given one of the library's spec OBJECTS (templates.py, llanim, mesh ...) draw a value from
its domain by walking the spec tree.  Used for "own image" laws (C09, C13, C20).

gen_value(draw, spec, ctx) is imperative (used inside st.composite) so that context-dependent members
(OptionalFlagged, ContextSwitch, ContextAdapter, QuantizedTime) can look at what was generated before them."""
import dataclasses
import enum
import struct

import numpy as np
from hypothesis import strategies as st

import hippolyzer.lib.base.serialization as se
import hippolyzer.lib.base.datatypes as dtypes
import hippolyzer.lib.base.templates as tmpls
import hippolyzer.lib.base.namevalue as namevalue
from hippolyzer.lib.base.multidict import OrderedMultiDict

from vlib.gen_specs import f32


class Unsupported(Exception):
    pass


F32S = st.floats(width=32, allow_nan=False, allow_infinity=False)
F64S = st.floats(allow_nan=False, allow_infinity=False)
NICE_F32 = st.one_of(F32S, st.sampled_from([0.0, 1.0, -1.0, 0.5, 128.0, 255.5]), st.integers(-1000, 1000).map(lambda i: f32(i / 8)))
TEXT = st.text(st.one_of(st.characters(min_codepoint=0x21, max_codepoint=0x7E), st.sampled_from(list("é中 "))), max_size=10)


def _prim(draw, p, small=False):
    fmt = p._struct_fmt.strip("<>!=")
    if fmt == "f":
        return draw(NICE_F32)
    if fmt == "d":
        return draw(F64S)
    lo, hi = p.min_val, p.max_val
    return draw(st.one_of(st.integers(lo, hi), st.sampled_from(sorted({lo, hi, 0 if lo <= 0 <= hi else lo, 1 if lo <= 1 <= hi else hi})),
                          st.integers(max(lo, -3), min(hi, 40))))


def _text_without(draw, bad: bytes, max_bytes=None, allow_empty=True):
    s = draw(TEXT)
    s = "".join(ch for ch in s if not any(b in bad for b in ch.encode("utf8")) and ch != "\x00")
    if max_bytes is not None:
        while len(s.encode("utf8")) > max_bytes:
            s = s[:-1]
    if not allow_empty and not s:
        s = "x"
    return s


# the face bitfield is of arbitrary length on the wire: faces beyond the 45 a viewer draws are legal there
_FACE = st.one_of(st.integers(0, 20), st.integers(0, 70), st.sampled_from([6, 7, 13, 14, 44, 45, 48, 49, 62, 63, 64]))


def gen_value(draw, spec, ctx=None, depth=0, window=None, overrides=None):
    """rich (object-mode) value for `spec`"""
    if depth > 12:
        raise Unsupported("too deep")
    nxt = depth + 1
    if isinstance(spec, se.ForwardSerializable):
        spec._ensure_evaled()
        return gen_value(draw, spec._wrapped, ctx, nxt)
    # ---- class-level specs ----
    if isinstance(spec, type):
        if issubclass(spec, se.UUID):
            return dtypes.UUID(int=draw(st.one_of(st.integers(0, 2 ** 128 - 1), st.sampled_from([0, 1]))))
        if issubclass(spec, se.TupleCoord):
            return spec.COORD_CLS(*[_prim(draw, spec.ELEM_SPEC) for _ in range(spec.NUM_ELEMS)])
        if issubclass(spec, se.Null):
            return None
        if issubclass(spec, tmpls.TEFaceBitfield):
            return tuple(sorted(draw(st.sets(_FACE, min_size=1, max_size=3))))
        if issubclass(spec, namevalue.NameValuesSerializer):
            out = namevalue.NameValueCollection()
            for _ in range(draw(st.integers(0, 2))):
                nv = gen_value(draw, namevalue.NV_SERIALIZER, ctx, nxt)
                if not nv.name:
                    nv.name = "n"
                out.append(nv)
            return out
        if issubclass(spec, se.BinaryLLSD):
            return draw(st.recursive(st.one_of(st.integers(-1000, 1000), st.text(max_size=5), st.booleans()),
                                     lambda ch: st.one_of(st.lists(ch, max_size=3), st.dictionaries(st.text(max_size=4), ch, max_size=3)), max_leaves=6))
        raise Unsupported("class spec %s" % spec.__name__)
    # ---- most specific instance types first ----
    if isinstance(spec, tmpls.TEExceptionField):
        if spec._optional and draw(st.integers(0, 2)) == 0:
            return None
        default = gen_value(draw, spec._spec, ctx, nxt)
        vals = {None: default}
        for _ in range(draw(st.integers(0, 2))):
            faces = tuple(sorted(draw(st.sets(_FACE, min_size=1, max_size=3))))
            # an exception may legally repeat the default value
            vals[faces] = default if draw(st.integers(0, 3)) == 0 else gen_value(draw, spec._spec, ctx, nxt)
        return vals
    if isinstance(spec, se.SerializablePrimitive):
        return _prim(draw, spec)
    if isinstance(spec, se.QuantizedFloatBase):
        p = spec._child_spec
        raw = draw(st.one_of(st.integers(p.min_val, p.max_val), st.sampled_from([p.min_val, p.max_val, (p.min_val + p.max_val + 1) // 2])))
        if isinstance(spec, tmpls.PackedTERotation) and raw == p.min_val:
            raw += 1       # C10 known finding (raw -32768 <-> -2pi) is excluded here by construction
        return spec.decode(raw, ctx)
    if isinstance(spec, se.FixedPoint):
        raw = draw(st.integers(0, spec._ser_spec.max_val))
        return raw / (1 << spec._frac_bits) - (spec._max_val if spec._signed else 0)
    if isinstance(spec, se.EncodedTupleCoord):
        return spec.COORD_CLS(*[gen_value(draw, s, ctx, nxt) for s in spec._elem_specs])
    if isinstance(spec, se.PackedQuat):
        coord = gen_value(draw, spec._child_spec, ctx, nxt)
        return dtypes.Quaternion(*tuple(coord))
    if isinstance(spec, se.IntEnum):
        members = list(spec.enum_cls)
        p = spec._child_spec
        if p is not None:
            members = [m for m in members if p.min_val <= int(m) <= p.max_val]
        if not members:
            raise Unsupported("enum without members in range")
        return draw(st.sampled_from(members))
    if isinstance(spec, se.IntFlag):
        p = spec._child_spec
        hi = p.max_val if p is not None else 0xFFFFFFFF
        allbits = 0
        for m in spec.flag_cls:
            allbits |= int(m)
        v = draw(st.one_of(st.integers(0, hi), st.integers(0, hi).map(lambda x: x & allbits), st.just(0)))
        return spec.flag_cls(v)
    if isinstance(spec, se.BitfieldDataclass):
        vals = gen_value(draw, spec._bitfield_spec, ctx, nxt)
        return spec._data_cls(**vals)
    if isinstance(spec, se.BitField):
        out = {}
        cur = 0
        for name, entry in spec._schema.items():
            raw = draw(st.integers(0, (1 << entry.bits) - 1))
            if isinstance(entry.adapter, se.IntEnum) and draw(st.booleans()):
                ms = [int(m) for m in entry.adapter.enum_cls if int(m) >> (0 if spec._bitfield.shift else cur) < (1 << entry.bits)]
                if ms:
                    raw = draw(st.sampled_from(ms))
                    if not spec._bitfield.shift:
                        raw >>= cur
            member = raw if spec._bitfield.shift else raw << cur
            out[name] = entry.adapter.decode(member, ctx=ctx, pod=False)
            cur += entry.bits
        return out
    if isinstance(spec, se.ContextAdapter):
        option = spec._choose_option(ctx)
        if spec._child_spec is None:
            raise Unsupported("context adapter without child spec needs the raw wire value")
        raw = gen_value(draw, spec._child_spec, ctx, nxt)
        return option.decode(raw, ctx=ctx, pod=False)
    if isinstance(spec, se.StringEnumAdapter):
        return draw(st.sampled_from(list(spec._enum_cls)))
    if isinstance(spec, se.DataclassAdapter):
        vals = gen_value(draw, spec._child_spec, ctx, nxt)
        return spec._data_cls(**vals)
    if isinstance(spec, se.Adapter):
        # generic: a value the adapter itself decodes from a child value
        if spec._child_spec is None:
            raise Unsupported("adapter %s without child spec" % type(spec).__name__)
        raw = gen_value(draw, spec._child_spec, ctx, nxt)
        return spec.decode(raw, ctx=ctx, pod=False)
    if isinstance(spec, se.Dataclass):
        vals = gen_value(draw, spec.template, ctx, nxt)
        return spec._data_cls(**vals)
    if isinstance(spec, se.Template):
        values = {}
        inner = se.ParseContext(values, parent=ctx)
        for name, field in spec._template_spec.items():
            if overrides and name in overrides:
                values[name] = overrides[name]
                continue
            if isinstance(field, se.OptionalFlagged):
                if field._normalize_flag_val(inner) & field._flag_val:
                    values[name] = gen_value(draw, field._ser_spec, inner, nxt)
                else:
                    values[name] = None
            else:
                values[name] = gen_value(draw, field, inner, nxt)
        return values
    if isinstance(spec, se.Tuple):
        vals = []
        inner = se.ParseContext(vals, parent=ctx)
        for p in spec._prim_seq:
            vals.append(gen_value(draw, p, inner, nxt))
        return vals
    if isinstance(spec, se.Collection):
        n = spec._length if spec._length else draw(st.integers(0, 3))
        vals = []
        inner = se.ParseContext(vals, parent=ctx)
        cap = getattr(getattr(spec, "_len_spec", None), "max_val", None)
        if not spec._length and cap is not None and cap <= 255 and draw(st.integers(0, 24)) == 0:
            # as many entries as the count field can state: one generated entry, repeated
            import copy
            one = gen_value(draw, spec._entry_ser, inner, nxt)
            vals.extend(copy.deepcopy(one) for _ in range(cap))
            return vals
        for _ in range(n):
            vals.append(gen_value(draw, spec._entry_ser, inner, nxt))
        return vals
    if isinstance(spec, se.OptionalPrefixed):
        return None if draw(st.booleans()) else gen_value(draw, spec._ser_spec, ctx, nxt)
    if isinstance(spec, se.OptionalFlagged):
        raise Unsupported("OptionalFlagged outside a Template")
    if isinstance(spec, se.IfPresent):
        return None if draw(st.integers(0, 2)) == 0 else gen_value(draw, spec._ser_spec, ctx, nxt)
    if isinstance(spec, se.LengthSwitch):
        keys = list(spec._choice_specs)
        if window is not None:
            key = window if window in spec._choice_specs else None      # the enclosing fixed-size wrapper decides
            if key is None and None not in spec._choice_specs:
                raise Unsupported("no branch for window %r" % window)
        else:
            key = draw(st.sampled_from(keys))
        for _attempt in range(8):
            inner = gen_value(draw, spec._choice_specs[key], ctx, nxt)
            w = se.BufferWriter("<")
            w.write(spec._choice_specs[key], inner, ctx=ctx)
            size = len(w)
            if key is None and size not in spec._choice_specs:
                break
            if key is not None and size == key:
                break
        if key is None and size in spec._choice_specs:
            raise Unsupported("default-branch value whose size collides with a keyed branch")
        if key is not None and size != key:
            raise Unsupported("keyed branch whose encoding is not the key size")
        return dtypes.TaggedUnion(size, inner)
    if isinstance(spec, se.EnumSwitch):
        member = draw(st.sampled_from(sorted(spec._choice_specs, key=int)))
        return dtypes.TaggedUnion(member, gen_value(draw, spec._choice_specs[member], ctx, nxt))
    if isinstance(spec, se.FlagSwitch):
        out = {}
        for flag, choice in spec._choice_specs.items():
            if draw(st.booleans()):
                out[flag] = gen_value(draw, choice, ctx, nxt)
        return out
    if isinstance(spec, se.ContextSwitch):
        return gen_value(draw, spec._choose_option(ctx), ctx, nxt)
    if isinstance(spec, se.TypedBytesBase):
        if spec._empty_is_none and draw(st.integers(0, 3)) == 0:
            return None
        win = spec._bytes_tmpl._size if isinstance(spec._bytes_tmpl, se.BytesFixed) else None
        inner = gen_value(draw, spec._spec, ctx, nxt, window=win)
        if spec._empty_is_none:
            # a value whose encoding is empty IS the wrapper's None
            w = se.BufferWriter("<")
            w.write(spec._spec, inner, ctx=ctx)
            if not len(w):
                return None
        return inner
    if isinstance(spec, se.BytesFixed):
        return draw(st.binary(min_size=spec._size, max_size=spec._size))
    if isinstance(spec, se.ByteArray):
        return draw(st.binary(max_size=min(16, spec._len_spec.max_val)))
    if isinstance(spec, se.BytesGreedy):
        return draw(st.binary(max_size=12))
    if isinstance(spec, se.BytesTerminated):
        bad = b"".join(spec.terminators)
        return bytes(b for b in draw(st.binary(max_size=10)) if b not in bad)
    if isinstance(spec, se.StrFixed):
        return _text_without(draw, b"", max_bytes=spec._length)
    if isinstance(spec, se.Str):
        return _text_without(draw, b"", max_bytes=min(30, spec._bytes_tmpl._len_spec.max_val - 1))
    if isinstance(spec, se.CStr):
        return _text_without(draw, b"".join(spec._bytes_tmpl.terminators))
    if isinstance(spec, se.Struct):
        raise Unsupported("raw struct")
    raise Unsupported(type(spec).__name__)


def values_of(spec, ctx_factory=None):
    """Hypothesis strategy of rich values for spec (raises Unsupported at draw time for unknown spec classes)"""
    @st.composite
    def strat(draw):
        ctx = ctx_factory(draw) if ctx_factory else None
        return gen_value(draw, spec, ctx)
    return strat()


def supported(spec, tries=1):
    """cheap probe: can the walker handle this spec at all?"""
    from hypothesis import find
    try:
        find(values_of(spec), lambda v: True)
        return True
    except Unsupported:
        return False
    except Exception:
        return True
