"""Template-driven LLUDP message generator, independent reference encoder and value comparator.

A *case* is plain data:
    {"name": str, "flags": int, "pid": int, "acks": [int], "extra": bytes, "fill": bool,
     "blocks": [[block_name, [ {var: plain_value, ...}, ... ]], ...]}     (template order, a prefix of the template's blocks)
Plain values: int / bool / float / tuple of floats (vectors, quaternion xyz) / 32-hex str (LLUUID) / dotted quad (IPADDR)
/ bytes or str (Fixed, Variable).  In a `fill` case a variable may be absent from its dict (left unset).
"""
import math
import socket
import struct

from hypothesis import strategies as st

from hippolyzer.lib.base.datatypes import UUID, Vector3, Vector4, Quaternion, JankStringyBytes
from hippolyzer.lib.base.message.message import Message, Block
from hippolyzer.lib.base.message.msgtypes import MsgType, MsgBlockType, MsgFrequency
from hippolyzer.lib.base.message.template_dict import DEFAULT_TEMPLATE_DICT

TEMPLATES = dict(DEFAULT_TEMPLATE_DICT.message_templates)
ALL_NAMES = sorted(TEMPLATES)
ZC_CAP = 0x3000

T = MsgType
INT_RANGES = {
    T.MVT_U8: (0, 0xFF), T.MVT_U16: (0, 0xFFFF), T.MVT_U32: (0, 0xFFFFFFFF), T.MVT_U64: (0, 2 ** 64 - 1),
    T.MVT_S8: (-0x80, 0x7F), T.MVT_S16: (-0x8000, 0x7FFF), T.MVT_S32: (-2 ** 31, 2 ** 31 - 1),
    T.MVT_S64: (-2 ** 63, 2 ** 63 - 1), T.MVT_IP_PORT: (0, 0xFFFF),
}
STRUCT_FMT = {
    T.MVT_U8: "<B", T.MVT_U16: "<H", T.MVT_U32: "<I", T.MVT_U64: "<Q", T.MVT_S8: "<b", T.MVT_S16: "<h",
    T.MVT_S32: "<i", T.MVT_S64: "<q", T.MVT_IP_PORT: ">H", T.MVT_F32: "<f", T.MVT_F64: "<d", T.MVT_BOOL: "<B",
    T.MVT_LLVector3: "<3f", T.MVT_LLVector3d: "<3d", T.MVT_LLVector4: "<4f", T.MVT_LLQuaternion: "<3f",
}
FIXED_SIZE = {T.MVT_U8: 1, T.MVT_U16: 2, T.MVT_U32: 4, T.MVT_U64: 8, T.MVT_S8: 1, T.MVT_S16: 2, T.MVT_S32: 4,
              T.MVT_S64: 8, T.MVT_F32: 4, T.MVT_F64: 8, T.MVT_LLVector3: 12, T.MVT_LLVector3d: 24,
              T.MVT_LLVector4: 16, T.MVT_LLQuaternion: 12, T.MVT_LLUUID: 16, T.MVT_BOOL: 1, T.MVT_IP_ADDR: 4,
              T.MVT_IP_PORT: 2}


def var_kind(var):
    """text / bin / jank classification exactly as documented for Fixed/Variable variables"""
    if var.type not in (T.MVT_FIXED, T.MVT_VARIABLE):
        return None
    if var.probably_binary:
        return "bin"
    if var.probably_text:
        return "text"
    return "jank"


def weighted_names(names=None, floor=0.03):
    """template names with repetitions so that every variable type and block kind present in `names`
    is carried by at least `floor` of the list (rare types: Fixed, Vector4, S16, F64, Vector3d, ...)"""
    names = list(names or ALL_NAMES)
    feats = {}
    for n in names:
        for b in TEMPLATES[n].blocks:
            feats.setdefault(("kind", b.block_type), set()).add(n)
            for v in b.variables:
                feats.setdefault(("type", v.type), set()).add(n)
                if v.type == T.MVT_VARIABLE:
                    feats.setdefault(("var", v.size, var_kind(v)), set()).add(n)
    out = list(names)
    for f in sorted(feats, key=repr):
        have = sum(1 for n in out if n in feats[f])
        holders = sorted(feats[f])
        i = 0
        while have < floor * len(out):
            out.append(holders[i % len(holders)])
            have += 1
            i += 1
    return out


_WEIGHTED_ALL = None


def default_names():
    global _WEIGHTED_ALL
    if _WEIGHTED_ALL is None:
        _WEIGHTED_ALL = weighted_names()
    return _WEIGHTED_ALL


# ---------------------------------------------------------------------------------------------
# strategies
# ---------------------------------------------------------------------------------------------
def _ints(lo, hi):
    edge = sorted({lo, hi, 0, 1, -1, lo + 1, hi - 1, 127, 128, 255, 256, 0x7FFF, 0x8000, 0xFFFF, 0x10000,
                   2 ** 31 - 1, 2 ** 31, 2 ** 32 - 1, 2 ** 32, 2 ** 63 - 1, 2 ** 63} & set(range(lo, hi + 1))
                  if hi - lo < 70000 else
                  {x for x in (lo, hi, 0, 1, -1, lo + 1, hi - 1, 127, 128, 255, 256, 0x7FFF, 0x8000, 0xFFFF, 0x10000,
                               2 ** 31 - 1, 2 ** 31, 2 ** 32 - 1, 2 ** 32, 2 ** 63 - 1, 2 ** 63) if lo <= x <= hi})
    return st.one_of(st.integers(lo, hi), st.sampled_from(edge))


def _floats(width, finite):
    base = st.floats(width=width, allow_nan=False, allow_infinity=not finite)
    special = st.sampled_from([0.0, -0.0, 1.0, -1.0, 0.5, 1e-45 if width == 32 else 5e-324, 3.4028234663852886e38])
    return st.one_of(base, base, special)


TEXT_CHARS = st.one_of(
    st.characters(min_codepoint=0x20, max_codepoint=0x7E),
    st.sampled_from(list("\n\n\t\\\"'#[]<>=|$ \x00\x01\x7fé中\U0001F600﻿")),
    st.characters(blacklist_categories=("Cs",)),
)


def _text(max_bytes, xml_safe=False):
    chars = TEXT_CHARS
    if xml_safe:
        chars = st.one_of(st.characters(min_codepoint=0x20, max_codepoint=0x7E),
                          st.sampled_from(list("\n\t\r\\\"'#[]<>&=|$ é中\U0001F600")),
                          st.characters(blacklist_categories=("Cs", "Cc", "Cn", "Co"), blacklist_characters="￾￿"))

    def trim(s):
        # the encoded form (utf-8 + NUL) must fit, and a str value has no trailing NUL (decode strips terminators)
        while len(s.encode("utf8")) + 1 > max_bytes:
            s = s[:-1]
        return s.rstrip("\x00")
    return st.text(chars, max_size=min(max_bytes, 300)).map(trim)


def _var_len_bytes(prefix, zc):
    """length strategy for a Variable field with a 1- or 2-byte length prefix"""
    if prefix == 1:
        return st.one_of(st.integers(0, 255), st.sampled_from([0, 1, 254, 255]), st.integers(0, 12))
    hi = 2000 if zc else 65535
    return st.one_of(st.integers(0, 40), st.integers(0, 40), st.sampled_from([0, 1, 255, 256, 257, hi]),
                     st.integers(0, hi))


BYTE_SHAPES = st.sampled_from(["rand", "zeros", "text0", "text", "badutf0", "nulmid0", "dblnul", "bom0"])


@st.composite
def _var_bytes(draw, n, kind):
    shape = draw(BYTE_SHAPES)
    if n == 0:
        return b""
    if shape == "rand":
        return draw(st.binary(min_size=n, max_size=n))
    if shape == "zeros":
        return bytes(n)
    body = draw(st.binary(min_size=n, max_size=n))
    asc = bytes(0x20 + (b % 0x5F) for b in body)
    if shape == "text":
        return asc
    if shape == "text0":
        return asc[:-1] + b"\x00"
    if shape == "bom0":
        # valid, terminated text that starts with a byte-order mark (three bytes that are part of the value)
        return (b"\xef\xbb\xbf" + asc)[:n - 1] + b"\x00" if n >= 4 else asc[:-1] + b"\x00"
    if shape == "badutf0":
        return (b"\xfc" + asc)[:n - 1] + b"\x00"
    if shape == "nulmid0":
        mid = n // 2
        return (asc[:mid] + b"\x00" + asc[mid + 1:])[:n - 1] + b"\x00"
    if shape == "dblnul":
        return asc[:-2] + b"\x00\x00" if n >= 2 else b"\x00"
    return body


def _near_unit(t):
    """three F32 whose squared length is a chosen amount off 1: rotations as peers send them (unit up to rounding, or a hair over)"""
    x, y, z, sq = t
    n = math.sqrt(x * x + y * y + z * z)
    if n < 1e-3:
        x, y, z, n = 0.0, 0.0, 1.0, 1.0
    k = math.sqrt(sq) / n
    return tuple(struct.unpack("<f", struct.pack("<f", c * k))[0] for c in (x, y, z))


NEAR_UNIT = st.tuples(st.floats(-1, 1, width=32), st.floats(-1, 1, width=32), st.floats(-1, 1, width=32),
                      st.sampled_from([1.0, 1.0 + 3e-6, 1.00002, 1.00005, 1.00009, 1.0002, 0.99995, 0.5])).map(_near_unit)


def value_strategy(var, *, zc=False, finite=False, xml_safe=False, allow_str=True, dbl_nul=True, quat_near_unit=False):
    t = var.type
    if t == T.MVT_LLQuaternion and quat_near_unit:
        return st.one_of(st.tuples(*[_floats(32, finite)] * 3), NEAR_UNIT)
    if t in INT_RANGES:
        return _ints(*INT_RANGES[t])
    if t == T.MVT_BOOL:
        # the wire type is one unsigned byte: mostly booleans, sometimes any byte value
        return st.one_of(st.booleans(), st.booleans(), st.sampled_from([0, 1]), st.integers(0, 255))
    if t == T.MVT_F32:
        return _floats(32, finite)
    if t == T.MVT_F64:
        return _floats(64, finite)
    if t in (T.MVT_LLVector3, T.MVT_LLQuaternion):
        return st.tuples(*[_floats(32, finite)] * 3)
    if t == T.MVT_LLVector3d:
        return st.tuples(*[_floats(64, finite)] * 3)
    if t == T.MVT_LLVector4:
        return st.tuples(*[_floats(32, finite)] * 4)
    if t == T.MVT_LLUUID:
        return st.one_of(st.integers(0, 2 ** 128 - 1), st.sampled_from([0, 1, 2 ** 128 - 1])).map(lambda i: "%032x" % i)
    if t == T.MVT_IP_ADDR:
        return st.binary(min_size=4, max_size=4).map(socket.inet_ntoa)
    if t == T.MVT_FIXED:
        return st.one_of(st.binary(min_size=var.size, max_size=var.size), st.just(bytes(var.size)))
    if t == T.MVT_VARIABLE:
        kind = var_kind(var)
        maxlen = 255 if var.size == 1 else (2000 if zc else 65535)
        by = _var_len_bytes(var.size, zc).flatmap(lambda n: _var_bytes(n, kind))
        if not dbl_nul:
            # exclude byte strings ending in two NULs on text variables (see C02 finding) when asked to
            by = by.map(lambda b: b[:-1] + b"\x01" if (kind == "text" and b.endswith(b"\x00\x00")) else b)
        if kind == "bin" or not allow_str:
            return by
        return st.one_of(by, _text(maxlen, xml_safe))
    raise ValueError(t)


FLAGS = st.builds(lambda hi, lo: (hi << 4) | lo, st.integers(0, 15), st.one_of(st.just(0), st.just(0), st.integers(0, 15)))
ACKS = st.one_of(st.just([]), st.just([]), st.lists(st.integers(0, 0xFFFFFFFF), min_size=1, max_size=6),
                 st.lists(st.sampled_from([0, 1, 0xFFFFFFFF, 0x01000000, 256]), min_size=1, max_size=255))
EXTRA = st.one_of(st.just(b""), st.just(b""), st.binary(max_size=8), st.binary(max_size=255),
                  st.integers(0, 255).map(bytes),
                  st.lists(st.sampled_from([0, 0, 1, 255]), max_size=255).map(bytes),
                  st.integers(0, 127).map(lambda n: b"\x00\x01" * n))


def _count_strategy(block, nvars):
    if block.block_type == MsgBlockType.MBT_SINGLE:
        return st.just(1)
    if block.block_type == MsgBlockType.MBT_MULTIPLE:
        return st.just(block.number)
    big = [255] if nvars <= 3 else []
    return st.one_of(st.integers(0, 3), st.integers(0, 3), st.sampled_from([0, 1, 2] + big), st.integers(0, 255 if nvars <= 3 else 12))


@st.composite
def message_case(draw, names=None, profile="full", finite=False, xml_safe=False, allow_str=True, with_header=True,
                 dbl_nul=True, omit_trailing=True, quat_near_unit=False):
    name = draw(st.sampled_from(names or default_names()))
    tmpl = TEMPLATES[name]
    fill = profile == "fill"
    if with_header:
        flags = draw(FLAGS)
        acks = draw(ACKS)
        extra = draw(EXTRA)
        pid = draw(st.one_of(st.integers(0, 0xFFFFFFFF), st.sampled_from([0, 1, 0xFFFFFFFF])))
    else:
        flags, acks, extra, pid = draw(st.sampled_from([0, 0x80, 0x40, 0xC0])), [], b"", draw(st.integers(1, 0xFFFFFF))
    flags = (flags | 0x10) if acks else (flags if draw(st.integers(0, 9)) == 0 else flags & ~0x10)
    zc = bool(flags & 0x80)
    nblocks = len(tmpl.blocks)
    present = nblocks
    if omit_trailing and nblocks > 1 and draw(st.integers(0, 7)) == 0:
        present = draw(st.integers(1, nblocks - 1))
    blocks = []
    for b in tmpl.blocks[:present]:
        count = draw(_count_strategy(b, len(b.variables)))
        insts = []
        for _ in range(count):
            d = {}
            # in the `fill` profile a third of the block instances are fully specified (and then not marked for default-filling,
            # see build()), so marked and unmarked instances mix within one block list
            partial = fill and draw(st.integers(0, 2)) != 0
            for v in b.variables:
                if partial and draw(st.booleans()):
                    continue
                d[v.name] = draw(value_strategy(v, zc=zc, finite=finite, xml_safe=xml_safe, allow_str=allow_str, dbl_nul=dbl_nul,
                                                quat_near_unit=quat_near_unit))
            insts.append(d)
        blocks.append([b.name, insts])
    case = {"name": name, "flags": flags, "pid": pid, "acks": acks, "extra": extra, "fill": fill, "blocks": blocks}
    if zc and len(ref_body(case)) > ZC_CAP - 64:
        case["flags"] = flags & ~0x80     # the zero-coding cap is a documented decoder limit: keep such bodies unflagged
    return case


# ---------------------------------------------------------------------------------------------
# building library objects from a case
# ---------------------------------------------------------------------------------------------
def rich_value(var, v):
    t = var.type
    if t == T.MVT_LLUUID:
        return UUID(v)
    if t in (T.MVT_LLVector3, T.MVT_LLVector3d):
        return Vector3(*v)
    if t == T.MVT_LLVector4:
        return Vector4(*v)
    if t == T.MVT_LLQuaternion:
        return Quaternion(*v)
    return v


def build(case) -> Message:
    tmpl = TEMPLATES[case["name"]]
    msg = Message(case["name"], packet_id=case["pid"], flags=case["flags"], acks=tuple(case["acks"]))
    for bname, insts in case["blocks"]:
        tb = tmpl.get_block(bname)
        msg.create_block_list(bname)
        for d in insts:
            blk = Block(bname, fill_missing=bool(case["fill"]) and len(d) < len(tb.variables))
            for k, v in d.items():
                blk[k] = rich_value(tb.get_variable(k), v)
            msg.add_block(blk)
    if case["extra"]:
        msg.extra = case["extra"]
    return msg


# ---------------------------------------------------------------------------------------------
# independent reference encoder (written from the template file format, not from the serializer)
# ---------------------------------------------------------------------------------------------
def ref_msgnum(tmpl):
    f = tmpl.frequency
    if f == MsgFrequency.HIGH:
        return bytes([tmpl.num])
    if f == MsgFrequency.MEDIUM:
        return b"\xff" + bytes([tmpl.num])
    if f == MsgFrequency.LOW:
        return b"\xff\xff" + struct.pack(">H", tmpl.num)
    return b"\xff\xff\xff" + bytes([tmpl.num & 0xFF])


def ref_var(var, v, present=True):
    t = var.type
    if not present:
        if t == T.MVT_VARIABLE:
            return bytes(var.size)          # zero length prefix
        if t == T.MVT_FIXED:
            return bytes(var.size)
        return bytes(FIXED_SIZE[t])
    if t in STRUCT_FMT:
        fmt = STRUCT_FMT[t]
        if isinstance(v, tuple):
            return struct.pack(fmt, *v)
        return struct.pack(fmt, v)
    if t == T.MVT_LLUUID:
        return bytes.fromhex(v)
    if t == T.MVT_IP_ADDR:
        return socket.inet_aton(v)
    data = v.encode("utf8") + b"\x00" if isinstance(v, str) else bytes(v)
    if t == T.MVT_FIXED:
        return data
    return struct.pack("<B" if var.size == 1 else "<H", len(data)) + data


def ref_body(case, segments=None) -> bytes:
    """reference body; if `segments` is a list it receives (start offset, label) for every encoded element"""
    tmpl = TEMPLATES[case["name"]]
    out = bytearray(ref_msgnum(tmpl))
    if segments is not None:
        segments.append((0, "msgnum"))
        segments.append((len(out), "extra"))
    out += case["extra"]
    for bname, insts in case["blocks"]:
        tb = tmpl.get_block(bname)
        if tb.block_type == MsgBlockType.MBT_VARIABLE:
            if segments is not None:
                segments.append((len(out), "blockcount"))
            out.append(len(insts))
        for d in insts:
            for v in tb.variables:
                if segments is not None:
                    segments.append((len(out), ("unset:" if v.name not in d else "") + v.type.name))
                out += ref_var(v, d.get(v.name), v.name in d)
    return bytes(out)


def first_diff_label(case, got: bytes) -> str:
    segs = []
    ref = ref_body(case, segs)
    n = min(len(ref), len(got))
    pos = next((i for i in range(n) if ref[i] != got[i]), n)
    label = "end"
    for start, lab in segs:
        if start <= pos:
            label = lab
    if pos == n and len(got) < len(ref):
        return "short@" + label
    if pos == n and len(got) > len(ref):
        return "long"
    return label


def ref_header(case) -> bytes:
    return bytes([case["flags"] & 0xFF]) + struct.pack(">I", case["pid"]) + bytes([len(case["extra"])])


def ref_trailer(case) -> bytes:
    if not case["flags"] & 0x10:
        return b""
    return b"".join(struct.pack(">I", a) for a in reversed(case["acks"])) + bytes([len(case["acks"])])


# ---------------------------------------------------------------------------------------------
# value comparison: decoded rich value vs generated plain value
# ---------------------------------------------------------------------------------------------
def _fbits(fmt, x):
    return struct.pack(fmt, x)


def expected_default(var):
    """plain value a default-filled (unset) variable must decode to: the type's zero"""
    t = var.type
    if t in INT_RANGES or t == T.MVT_BOOL:
        return 0
    if t in (T.MVT_F32, T.MVT_F64):
        return 0.0
    if t in (T.MVT_LLVector3, T.MVT_LLVector3d, T.MVT_LLQuaternion):
        return (0.0, 0.0, 0.0)
    if t == T.MVT_LLVector4:
        return (0.0,) * 4
    if t == T.MVT_LLUUID:
        return "0" * 32
    if t == T.MVT_IP_ADDR:
        return "0.0.0.0"
    if t == T.MVT_FIXED:
        return bytes(var.size)
    return b""


def value_mismatch(var, expected, got):
    """None if `got` (decoded) equals `expected` (plain) at the template's type, else a short reason"""
    t = var.type
    if t in INT_RANGES:
        if type(got) is not int or got != expected:
            return "int %r != %r" % (got, expected)
        return None
    if t == T.MVT_BOOL:
        if not isinstance(got, int) or int(got) != int(expected):
            return "bool %r != %r" % (got, expected)
        return None
    if t in (T.MVT_F32, T.MVT_F64):
        fmt = "<f" if t == T.MVT_F32 else "<d"
        if not isinstance(got, float) or _fbits(fmt, got) != _fbits(fmt, expected):
            return "float %r != %r" % (got, expected)
        return None
    if t in (T.MVT_LLVector3, T.MVT_LLVector3d, T.MVT_LLVector4, T.MVT_LLQuaternion):
        cls = {T.MVT_LLVector3: Vector3, T.MVT_LLVector3d: Vector3, T.MVT_LLVector4: Vector4, T.MVT_LLQuaternion: Quaternion}[t]
        if type(got) is not cls:
            return "coord type %s" % type(got).__name__
        fmt = "<d" if t == T.MVT_LLVector3d else "<f"
        comps = tuple(got)
        n = len(expected)
        if any(_fbits(fmt, a) != _fbits(fmt, b) for a, b in zip(comps[:n], expected)):
            return "coord %r != %r" % (comps, expected)
        if t == T.MVT_LLQuaternion:
            ref = Quaternion(*(struct.unpack("<f", _fbits("<f", c))[0] for c in expected))
            if _fbits("<d", comps[3]) != _fbits("<d", ref.W):
                return "quaternion W %r != derived %r" % (comps[3], ref.W)
        return None
    if t == T.MVT_LLUUID:
        if not isinstance(got, UUID) or got.hex != expected:
            return "uuid %r != %s" % (got, expected)
        return None
    if t == T.MVT_IP_ADDR:
        return None if got == expected and isinstance(got, str) else "ip %r != %r" % (got, expected)
    # Fixed / Variable
    kind = var_kind(var)
    if isinstance(expected, str):
        wire = expected.encode("utf8") + b"\x00"
        if kind == "text":
            return None if (type(got) is str and got == expected) else "text %r != %r" % (got, expected)
        if isinstance(got, bytes) and bytes(got) == wire:
            return None
        return "str-valued field decoded to %r, wire %r" % (got, wire)
    expected = bytes(expected)
    if isinstance(got, str):
        if kind != "text":
            return "non-text field decoded to str %r" % got
        # documented heuristic: NUL-terminated valid UTF-8 is shown as text; it must still denote the same bytes
        if got.encode("utf8") + b"\x00" != expected:
            return "text-decoded %r does not re-encode to the original bytes %r" % (got, expected)
        return None
    if not isinstance(got, bytes) or bytes(got) != expected:
        return "bytes %r != %r" % (got, expected)
    if kind == "bin" and type(got) is not bytes:
        return "binary field decoded to %s" % type(got).__name__
    return None


def compare_decoded(case, msg):
    """list of (location, reason) differences between the decoded Message and the generated case"""
    tmpl = TEMPLATES[case["name"]]
    diffs = []
    if msg.name != case["name"]:
        return [("name", "%s != %s" % (msg.name, case["name"]))]
    blocks = msg.blocks
    want_names = [b for b, _ in case["blocks"]]
    if list(blocks.keys()) != want_names:
        diffs.append(("blocks", "block lists %r != %r" % (list(blocks.keys()), want_names)))
        return diffs
    for bname, insts in case["blocks"]:
        tb = tmpl.get_block(bname)
        got = blocks[bname]
        if len(got) != len(insts):
            diffs.append((bname, "count %d != %d" % (len(got), len(insts))))
            continue
        for i, d in enumerate(insts):
            gb = got[i]
            if list(gb.vars.keys()) != [v.name for v in tb.variables]:
                diffs.append(("%s[%d]" % (bname, i), "variables %r" % list(gb.vars.keys())))
                continue
            for v in tb.variables:
                exp = d[v.name] if v.name in d else expected_default(v)
                why = value_mismatch(v, exp, gb.vars[v.name])
                if why:
                    diffs.append(("%s.%s:%s" % (bname, v.name, v.type.name), why))
    return diffs


def case_classes(case):
    """class labels for coverage accounting"""
    tmpl = TEMPLATES[case["name"]]
    cls = set()
    f = case["flags"]
    cls.add("zerocoded" if f & 0x80 else "plain")
    if case["acks"]:
        cls.add("acks")
    if len(case["acks"]) > 100:
        cls.add("acks>100")
    if case["extra"]:
        cls.add("extra")
    if f & 0x0F:
        cls.add("undefined_flag_bits")
    if len(case["blocks"]) < len(tmpl.blocks):
        cls.add("trailing_blocks_omitted")
    for bname, insts in case["blocks"]:
        tb = tmpl.get_block(bname)
        cls.add("block_kind_%d" % tb.block_type)
        if tb.block_type == MsgBlockType.MBT_VARIABLE:
            cls.add("varblock_count_0" if not insts else ("varblock_count_255" if len(insts) == 255 else "varblock_count_n"))
        for d in insts:
            for v in tb.variables:
                if v.name not in d:
                    cls.add("unset:" + v.type.name)
                    continue
                cls.add("type:" + v.type.name)
                val = d[v.name]
                if v.type == T.MVT_VARIABLE:
                    n = len(val.encode("utf8")) + 1 if isinstance(val, str) else len(val)
                    if v.size == 2 and n > 255:
                        cls.add("var2_len>255")
                    if n == 0:
                        cls.add("var_empty")
                    if v.size == 1 and n == 255:
                        cls.add("var1_len_255")
                    if isinstance(val, str):
                        cls.add("var_str")
                        if "\x00" in val:
                            cls.add("var_str_embedded_nul")
                    elif var_kind(v) == "text":
                        if val.endswith(b"\x00"):
                            cls.add("text_bytes_nul_terminated")
                        else:
                            cls.add("text_bytes_unterminated")
                elif isinstance(val, float) and val == 0.0 and str(val).startswith("-"):
                    cls.add("neg_zero")
    return sorted(cls)


def is_nontrivial(case):
    return any(d for _, insts in case["blocks"] for d in insts)
