"""Object-graph reflection over the repository's spec objects (used by C10, C08/C09 helpers).

walk(roots, targets) follows dict/list/tuple members, instance __dict__/__slots__, class attributes,
dataclass field metadata and zero-argument lambdas defined in hippolyzer (forward references), staying
inside objects whose class lives in a hippolyzer module.  Returns [(path, object)] for instances of `targets`."""
import dataclasses
import types

import numpy as np


def walk(roots, targets):
    seen = set()
    found = []
    stack = [(r, p) for p, r in roots]
    while stack:
        o, path = stack.pop()
        if id(o) in seen:
            continue
        seen.add(id(o))
        if isinstance(o, targets):
            found.append((path, o))
        if isinstance(o, (str, bytes, int, float, bool, type(None), np.ndarray, np.dtype)):
            continue
        kids = []
        if isinstance(o, dict):
            kids = [(v, path + "[%r]" % (k,)) for k, v in o.items()]
        elif isinstance(o, (list, tuple, set, frozenset)):
            kids = [(v, path + "[%d]" % i) for i, v in enumerate(o)]
        elif isinstance(o, types.ModuleType):
            if not o.__name__.startswith("hippolyzer"):
                continue
            kids = [(v, path + "." + k) for k, v in vars(o).items() if not k.startswith("__")]
        elif isinstance(o, (types.FunctionType, types.MethodType, types.BuiltinFunctionType)):
            if str(getattr(o, "__module__", "")).startswith("hippolyzer") and getattr(o, "__name__", "") == "<lambda>" \
                    and o.__code__.co_argcount == 0:
                try:
                    kids = [(o(), path + "()")]
                except Exception:
                    pass
        else:
            mod = getattr(o, "__module__", "") if isinstance(o, type) else getattr(type(o), "__module__", "")
            if not str(mod).startswith("hippolyzer"):
                continue
            if isinstance(o, type):
                kids = [(v, path + "." + k) for k, v in vars(o).items() if not k.startswith("__")]
                if dataclasses.is_dataclass(o):
                    for f in dataclasses.fields(o):
                        kids.append((dict(f.metadata), path + ".<field %s>" % f.name))
            else:
                d = {}
                for klass in type(o).__mro__:
                    for s in getattr(klass, "__slots__", ()) or ():
                        if isinstance(s, str) and hasattr(o, s):
                            d[s] = getattr(o, s)
                d.update(getattr(o, "__dict__", {}))
                kids = [(v, path + "." + k) for k, v in d.items()]
                kids.append((type(o), path + ".__class__"))
        stack.extend(kids)
    return found
