"""Regenerate the generated blocks of DESIGN.md from sensitivity/<ID>.json and write `detected_by` into seeded/*/meta.json.
Not a manifest command.  Usage: python -m vlib.mkdesign_tables"""
import glob
import json
import os
import re

VERIF_DIR = os.path.dirname(os.path.dirname(os.path.abspath(__file__)))


def main():
    rows = []
    summary = []
    for fn in sorted(glob.glob(os.path.join(VERIF_DIR, "sensitivity", "C*.json"))):
        with open(fn) as f:
            rec = json.load(f)
        prop = rec["property"]
        own = [p for p in rec["patches"] if p["patch"].startswith("mutants/")]
        seeded = [p for p in rec["patches"] if p["patch"].startswith("seeded/")]
        quiet = [u for u in rec["unchanged_tree"] if u["rc"] == 0]
        summary.append("| %s | %d/%d | %d/%d | %s |" % (
            prop, sum(p["verdict"] == "CAUGHT" for p in own), len(own), sum(p["verdict"] == "CAUGHT" for p in seeded), len(seeded),
            ", ".join("seed %d: %s" % (u["seed"], "quiet" if u["rc"] == 0 else "rc=%d" % u["rc"]) for u in rec["unchanged_tree"]) or "-"))
        for p in rec["patches"]:
            name = p["patch"].replace("mutants/%s/" % prop, "").replace(".patch", "").replace("/patch.diff", "")
            sigs = "; ".join("`%s`" % s for s in p["signatures"][:3]) + (" ..." if len(p["signatures"]) > 3 else "")
            rows.append("| %s | %s | %s | %s |" % (prop, name, p["verdict"].lower(), sigs))
            if p["patch"].startswith("seeded/"):
                meta = os.path.join(VERIF_DIR, os.path.dirname(p["patch"]), "meta.json")
                if os.path.exists(meta):
                    with open(meta) as f:
                        m = json.load(f)
                    m["detected_by"] = ({"check": prop, "tier": rec["tier"], "seed": int(rec["mutant_seed"]), "signatures": p["signatures"][:6]}
                                        if p["verdict"] == "CAUGHT" else None)
                    with open(meta, "w") as f:
                        json.dump(m, f, indent=1)
    block = ["| property | own mutants caught | seeded changes caught | unchanged tree |", "|---|---|---|---|", *summary, "",
             "Per patch (quick tier, first signatures reported):", "", "| property | patch | verdict | signatures |", "|---|---|---|---|", *rows]
    path = os.path.join(VERIF_DIR, "DESIGN.md")
    with open(path) as f:
        s = f.read()
    s = re.sub(r"(<!-- BEGIN GENERATED: sensitivity -->\n).*?(<!-- END GENERATED: sensitivity -->)",
               lambda m: m.group(1) + "\n".join(block) + "\n" + m.group(2), s, flags=re.S)
    with open(path, "w") as f:
        f.write(s)
    print("rows:", len(rows))


if __name__ == "__main__":
    main()
