"""JSON encoding of plain-data cases (bytes, tuples, non-str dict keys, special floats) for
replay files, samples and known-finding records.  decode(encode(x)) == x for that universe."""
import datetime as _dt
import json
import math


def enc(o):
    if o is None or isinstance(o, (bool, str)):
        return o
    if isinstance(o, int):
        return o if -(1 << 53) < o < (1 << 53) else {"__i": str(o)}
    if isinstance(o, float):
        if math.isnan(o) or math.isinf(o) or (o == 0.0 and math.copysign(1.0, o) < 0):
            return {"__f": o.hex()}
        return o
    if isinstance(o, (bytes, bytearray, memoryview)):
        return {"__b": bytes(o).hex()}
    if isinstance(o, tuple):
        return {"__t": [enc(x) for x in o]}
    if isinstance(o, list):
        return [enc(x) for x in o]
    if isinstance(o, (set, frozenset)):
        return {"__s": [enc(x) for x in sorted(o, key=repr)]}
    if isinstance(o, dict):
        if all(isinstance(k, str) and not k.startswith("__") for k in o):
            return {k: enc(v) for k, v in o.items()}
        return {"__d": [[enc(k), enc(v)] for k, v in o.items()]}
    if type(o).__name__ == "UUID" and hasattr(o, "int"):
        return {"__u": "%032x" % o.int}
    if isinstance(o, _dt.datetime):
        return {"__dt": o.isoformat()}
    return {"__r": repr(o)}


def dec(o):
    if isinstance(o, list):
        return [dec(x) for x in o]
    if isinstance(o, dict):
        if len(o) == 1:
            (k, v), = o.items()
            if k == "__i":
                return int(v)
            if k == "__f":
                return float.fromhex(v)
            if k == "__b":
                return bytes.fromhex(v)
            if k == "__t":
                return tuple(dec(x) for x in v)
            if k == "__s":
                return frozenset(dec(x) for x in v)
            if k == "__d":
                return {dec(a): dec(b) for a, b in v}
            if k == "__u":
                from hippolyzer.lib.base.datatypes import UUID
                return UUID(int=int(v, 16))
            if k == "__dt":
                return _dt.datetime.fromisoformat(v)
            if k == "__r":
                return v
        return {k: dec(v) for k, v in o.items()}
    return o


def dumps(o, **kw):
    return json.dumps(enc(o), **kw)


def loads(s):
    return dec(json.loads(s))


def brief(o, limit=600):
    """Human-readable, length-limited rendering of a case for evidence samples."""
    s = repr(o)
    if len(s) > limit:
        s = s[:limit] + "...(%d chars)" % len(s)
    return s
