"""In-process LLUDP proxy world: real SessionManager + InterceptingLLUDPProxyProtocol + SOCKS5UDPTransport over a
recording fake socket.  Shared by C06 and C07."""
import asyncio
import os
import socket
import struct

from hippolyzer.lib.base.datatypes import UUID
from hippolyzer.lib.base.message.message_dot_xml import MessageDotXML
from hippolyzer.lib.proxy.addons import AddonManager
from hippolyzer.lib.proxy.lludp_proxy import InterceptingLLUDPProxyProtocol
from hippolyzer.lib.proxy.sessions import SessionManager
from hippolyzer.lib.proxy.socks_proxy import ProxyClientContext
from hippolyzer.lib.proxy.settings import ProxySettings
from hippolyzer.lib.proxy.transport import SOCKS5UDPTransport

_LOOP = None
_LOOP_PID = None


def ensure_loop():
    """one private event loop per process (a loop inherited over fork() shares its selector with the parent)"""
    global _LOOP, _LOOP_PID
    if _LOOP is None or _LOOP.is_closed() or _LOOP_PID != os.getpid():
        _LOOP = asyncio.new_event_loop()
        _LOOP_PID = os.getpid()
    asyncio.set_event_loop(_LOOP)
    return _LOOP


def drain():
    """let call_soon callbacks / ready tasks run once"""
    loop = ensure_loop()
    loop.run_until_complete(asyncio.sleep(0))


class FakeSock:
    """stands in for the asyncio DatagramTransport of one UDP association"""

    def __init__(self, wire, assoc):
        self.wire = wire
        self.assoc = assoc
        self.closed = False

    def sendto(self, data, addr=None):
        self.wire.append((self.assoc, bytes(data), addr))

    def close(self):
        self.closed = True

    def get_extra_info(self, name, default=None):
        return default


class _FakeWriter:
    def __init__(self):
        self.closed = False

    def close(self):
        self.closed = True


def socks_header(addr, rsv=0, frag=0, atyp=1):
    """RFC 1928 section 7 UDP request header for an IPv4 destination"""
    return struct.pack("!HBB", rsv, frag, atyp) + socket.inet_aton(addr[0]) + struct.pack("!H", addr[1])


_MXML = MessageDotXML()
UDP_BANNED = sorted(n for n, d in _MXML.messages.items() if d.get("flavor") != "template")


class ProxyWorld:
    def __init__(self, n_viewers=1, n_regions=2, deferred=True, addons=(), logger=None):
        ensure_loop()
        settings = ProxySettings()
        settings.ENABLE_DEFERRED_PACKET_PARSING = deferred
        self.sm = SessionManager(settings)
        self.sm.message_logger = logger
        AddonManager.init([], self.sm, addon_objects=list(addons))
        self.wire = []
        self.viewers = []
        for v in range(n_viewers):
            caddr = ("127.0.0.%d" % (v + 1), 5000 + v)
            # (simulator ports are anywhere in the 16-bit range: the second region sits above 32767)
            regions = [("10.0.%d.1" % v, 13000 + r if r != 1 else 45001) for r in range(n_regions)]
            sess = self.sm.create_session({
                "session_id": UUID(int=0x1000 + v), "secure_session_id": UUID(int=0x2000 + v), "agent_id": UUID(int=0x3000 + v),
                "circuit_code": 1234 + v, "sim_ip": regions[0][0], "sim_port": regions[0][1],
                "region_x": 1000 + v, "region_y": 2000, "seed_capability": "https://sim%d.example/seed0" % v,
            })
            for r in range(1, n_regions):
                # (a neighbour announced by address and seed only has no handle until its handshake: the third region is one)
                sess.register_region(circuit_addr=regions[r], seed_url="https://sim%d.example/seed%d" % (v, r),
                                     handle=(((1000 + v) << 32) | (2000 + r)) if r != 2 else None)
            proto = InterceptingLLUDPProxyProtocol(caddr, self.sm)
            sock = FakeSock(self.wire, v)
            proto.transport = SOCKS5UDPTransport(sock)
            # the SOCKS control connection this association belongs to (what SOCKS5Server does on UDP ASSOCIATE)
            ctx = ProxyClientContext(_FakeWriter())
            ctx.udp_associations.append(proto)
            self.viewers.append({"addr": caddr, "session": sess, "proto": proto, "regions": regions, "sock": sock, "ctx": ctx})

    def feed(self, v, data, source):
        """datagram arriving on association v's socket; returns (new wire entries, exception or None)"""
        before = len(self.wire)
        exc = None
        try:
            self.viewers[v]["proto"].datagram_received(bytes(data), source)
        except Exception as e:       # what asyncio would log and survive
            exc = e
        return self.wire[before:], exc

    def from_viewer(self, v, region_addr, payload, header=None):
        hdr = socks_header(region_addr) if header is None else header
        return self.feed(v, hdr + payload, self.viewers[v]["addr"])

    def from_sim(self, v, region_addr, payload):
        return self.feed(v, payload, region_addr)

    def disconnect(self, v):
        """the viewer's SOCKS control connection ends: its context closes its own associations"""
        self.viewers[v]["ctx"].close()

    def close(self):
        for vw in self.viewers:
            try:
                vw["proto"].close()
            except Exception:
                pass
        try:
            AddonManager.shutdown()
        except Exception:
            pass
        AddonManager.FRESH_ADDON_MODULES.clear()
        try:
            drain()
        except Exception:
            pass
