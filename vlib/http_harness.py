"""In-process HTTP side of the proxy: MITMProxyEventManager over pickling queues (so flow state really crosses a
serialisation boundary, without depending on feeder-thread timing).  Shared by C15, C16, C17."""
import collections
import pickle
import queue

from mitmproxy.test import tflow, tutils

from hippolyzer.lib.base import llsd
from hippolyzer.lib.base.datatypes import UUID
from hippolyzer.lib.proxy.addons import AddonManager
from hippolyzer.lib.proxy.http_event_manager import MITMProxyEventManager
from hippolyzer.lib.proxy.http_flow import HippoHTTPFlow
from hippolyzer.lib.proxy.sessions import SessionManager
from hippolyzer.lib.proxy.settings import ProxySettings

from vlib.proxy_harness import ensure_loop


class PicklingQueue:
    def __init__(self):
        self.items = collections.deque()
        self.put_count = 0

    def put(self, item, block=True, timeout=None):
        self.put_count += 1
        self.items.append(pickle.dumps(item))

    def get(self, block=True, timeout=None):
        if not self.items:
            raise queue.Empty()
        return pickle.loads(self.items.popleft())

    def drain(self):
        out = []
        while self.items:
            out.append(pickle.loads(self.items.popleft()))
        return out

    def size(self):
        return len(self.items)


class HttpWorld:
    def __init__(self, n_sessions=2, n_regions=2, addons=(), logger=None):
        self.loop = ensure_loop()
        self.sm = SessionManager(ProxySettings())
        self.sm.flow_context.from_proxy_queue = PicklingQueue()
        self.sm.flow_context.to_proxy_queue = PicklingQueue()
        self.sm.message_logger = logger
        AddonManager.init([], self.sm, addon_objects=list(addons))
        self.mgr = MITMProxyEventManager(self.sm, self.sm.flow_context)
        self.sessions = []
        for s in range(n_sessions):
            sess = self.sm.create_session({
                "session_id": UUID(int=0x100 + s), "secure_session_id": UUID(int=0x200 + s), "agent_id": UUID(int=0x300 + s),
                # all avatars are in the same simulators: their regions share circuit addresses and differ in everything else
                "circuit_code": 100 + s, "sim_ip": "10.1.0.1", "sim_port": 13000,
                "region_x": 1000 + s, "region_y": 1000, "seed_capability": "https://sim-%d-0.example.com:12043/cap/seed-%d-0" % (s, s),
            })
            sess.pending = False
            for r in range(1, n_regions):
                sess.register_region(circuit_addr=("10.1.0.1", 13000 + r),
                                     seed_url="https://sim-%d-%d.example.com:12043/cap/seed-%d-%d" % (s, r, s, r),
                                     handle=((1000 + s) << 32) | (1000 + r))
            self.sessions.append(sess)

    @property
    def to_proxy(self):
        return self.sm.flow_context.to_proxy_queue

    @property
    def from_proxy(self):
        return self.sm.flow_context.from_proxy_queue

    def make_flow(self, method="GET", url="http://example.com/", body=b"", resp_status=None, resp_body=b"", headers=None,
                  resp_headers=None, metadata=None):
        scheme, rest = url.split("://", 1)
        hostport, _, path = rest.partition("/")
        host, _, port = hostport.partition(":")
        port = int(port) if port else (443 if scheme == "https" else 80)
        req = tutils.treq(method=method.encode(), scheme=scheme.encode(), host=host, port=port, path=("/" + path).encode(),
                          authority=hostport.encode(), content=body)
        if headers:
            for k, v in headers.items():
                req.headers[k] = v
        resp = None
        if resp_status is not None:
            resp = tutils.tresp(status_code=resp_status, content=resp_body)
            if resp_headers:
                for k, v in resp_headers.items():
                    resp.headers[k] = v
        f = tflow.tflow(req=req, resp=resp if resp is not None else False)
        f.metadata.update({"from_browser": False, "request_injected": False})
        if metadata:
            f.metadata.update(metadata)
        return f

    def pump(self, event_type, state):
        """hand one event to the main process side; returns (items put on to_proxy_queue, exception or None)"""
        self.from_proxy.put((event_type, state))
        before = self.to_proxy.put_count
        exc = None
        try:
            self.loop.run_until_complete(self.mgr.pump_proxy_event())
        except Exception as e:
            exc = e
        n_new = self.to_proxy.put_count - before
        items = [pickle.loads(x) for x in list(self.to_proxy.items)[-n_new:]] if n_new else []
        return items, exc

    def close(self):
        try:
            AddonManager.shutdown()
        except Exception:
            pass
        AddonManager.FRESH_ADDON_MODULES.clear()


def llsd_xml(v):
    return llsd.format_xml(v)
