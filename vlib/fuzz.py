"""Coverage-guided shards: run an atheris campaign in a subprocess and fold what it found into the shard's Ctx."""
import json
import os
import shutil
import subprocess
import sys
import tempfile

VERIF_DIR = os.path.dirname(os.path.dirname(os.path.abspath(__file__)))


def run_campaign(ctx, module_name, runs, max_len, corpus, label, seed_offset=0, empty_corpus=False):
    """corpus: iterable of bytes (small valid inputs); empty_corpus=True starts from nothing instead"""
    tmp = tempfile.mkdtemp(prefix="verif-fuzz-")
    try:
        cdir = os.path.join(tmp, "corpus")
        os.makedirs(cdir)
        if not empty_corpus:
            for i, b in enumerate(corpus):
                with open(os.path.join(cdir, "seed%04d" % i), "wb") as f:
                    f.write(b)
        out = os.path.join(tmp, "out.json")
        seed = (ctx.hseed + seed_offset) % (2 ** 31 - 1) + 1          # libFuzzer: 0 means "random"
        env = dict(os.environ)
        env["PYTHONPATH"] = os.pathsep.join([os.environ.get("VERIF_REPO", "/repo"), VERIF_DIR, os.path.join(VERIF_DIR, ".deps")])
        cmd = [sys.executable, "-B", "-W", "ignore", "-m", "vlib.fuzz_driver", module_name, out,
               "-runs=%d" % runs, "-seed=%d" % seed, "-max_len=%d" % max_len, "-timeout=60", "-rss_limit_mb=4096",
               "-print_final_stats=0", "-verbosity=0", cdir]
        p = subprocess.run(cmd, cwd=VERIF_DIR, env=env, stdout=subprocess.PIPE, stderr=subprocess.STDOUT, text=True)
        if p.returncode == 3:
            ctx.count("atheris_unavailable")
            return None
        if not os.path.exists(out):
            raise RuntimeError("fuzz driver for %s produced nothing (rc=%d): %s" % (module_name, p.returncode, p.stdout[-2000:]))
        with open(out) as f:
            st = json.load(f)
        if p.returncode != 0:
            # libFuzzer itself stopped (timeout / oom / crash of the interpreter): that is a finding about the input it names
            tail = p.stdout[-1500:]
            crash = None
            for fn in os.listdir(VERIF_DIR):
                if fn.startswith(("crash-", "timeout-", "oom-")):
                    with open(os.path.join(VERIF_DIR, fn), "rb") as f:
                        crash = f.read()
                    os.remove(os.path.join(VERIF_DIR, fn))
            ctx.fail("fuzz:%s:libfuzzer-stopped:rc%d" % (label, p.returncode), tail, {"fuzz": label, "data": crash or b""})
        ctx.bulk(st["execs"], st["nontrivial"], {"fuzz_execs:" + label: st["execs"], **{"fuzz:%s:%s" % (label, k): v for k, v in st["classes"].items()}},
                 {"fuzz": label, "execs": st["execs"], "corpus": "empty" if empty_corpus else "seeded"})
        for sig, rec in st["sigs"].items():
            ctx.fail(sig, rec["msg"], {"fuzz": label, "data": bytes.fromhex(rec["data"])})
        return st
    finally:
        shutil.rmtree(tmp, ignore_errors=True)


def sample_strategy(strategy, n, seed=0):
    """n deterministic draws from a Hypothesis strategy (seed corpus construction)"""
    from hypothesis import given, settings, seed as hseed, HealthCheck, Phase
    out = []

    @hseed(seed)
    @settings(max_examples=n, database=None, deadline=None, phases=[Phase.generate], suppress_health_check=list(HealthCheck), derandomize=False)
    @given(strategy)
    def collect(x):
        out.append(x)
    collect()
    return out
