"""C17 - event queue: no event lost, duplicated or reordered; injections delivered once."""
import socket
import struct

from hypothesis import strategies as st
from mitmproxy.http import HTTPFlow
from mitmproxy.test import tutils

from hippolyzer.lib.base import llsd
from hippolyzer.lib.base.datatypes import UUID
from hippolyzer.lib.base.message.message import Message, Block
from hippolyzer.lib.base.test_utils import MockTransport
from hippolyzer.lib.proxy.circuit import ProxiedCircuit

from vlib.http_harness import HttpWorld
from vlib.runner import hyp_run

PROPERTY = "C17"
LEVEL = "exploration"
RULE = ("poll histories on one region's event queue through the real request/response handlers with a modelled viewer (tracks the "
        "last id it actually received) and simulator (numbered events, increasing ids): poll answered with 0..4 events (plain EQ "
        "events, templated events, region-announcing EstablishAgentCommunication / EnableSimulator / TeleportFinish / CrossedRegion "
        "with fresh and repeated addresses), per-event addon decisions {ignore, return True, return 1/'yes'/object, raise, swallow-and-inject-a-rewritten-copy-from-inside-the-hook}, "
        "inject_event / inject_message before polls, response lost followed by a re-poll with the stale ack, 499/502/404 "
        "responses, 200 with undef body, region teardown, injections queued for another region, announced neighbours connecting and going away, "
        "events without a map body or without all their blocks, a response lost twice.  Every response the viewer receives is compared with the model.  "
        "Exhaustive to depth 4 (quick) / 6 (thorough) over 11 abstract events, Hypothesis histories beyond.  Non-trivial = history with an injection or "
        "a swallowed event or a lost response; distinct by content.")
ASSUMPTIONS = [
    "the viewer re-polls with a stale acknowledgement only after a response was lost; simulator response ids are strictly increasing",
    "each announcement of a simulator address comes with a fresh seed capability URL (as on a real grid: seeds are per connection)",
]
EXHAUSTIVE_PARTS = {"quick": ["all sequences of 11 abstract events to depth 4"], "thorough": ["all sequences of 11 abstract events to depth 6"]}
FLOORS = {"quick": {"histories": 300, "polls": 3000, "replays": 300, "swallowed": 300, "injected_delivered": 300, "emptied_to_undef": 100,
                    "regions_announced": 200, "teardowns": 100, "injected_in_hook": 300}}
MANIFEST = {
    "text": "Model-based exploration of event-queue poll histories (bounded-exhaustive + random) with a reference model of what the "
            "viewer must receive per poll: filtered simulator events in order, pending injections appended exactly once, undef for "
            "emptied responses, verbatim replay for a repeated acknowledgement, untouched non-200 responses, and exactly one new "
            "region per distinct announced address.",
    "note": "Single region / single viewer per history; flows are mitmproxy test flows crossing a pickling queue.",
    "technique": "bounded exhaustive + Hypothesis histories against a reference model (stateful model-based testing)",
}


class Addon:
    def __init__(self):
        self.decisions = []
        self.seen = []
        self.rewritten = []

    def handle_eq_event(self, session, region, event):
        self.seen.append(event["message"])
        d = self.decisions.pop(0) if self.decisions else "ignore"
        if d == "swallow":
            return True
        if d == "one":
            return 1
        if d == "yes":
            return "yes"
        if d == "raise":
            raise RuntimeError("addon fails on event")
        if d == "rewrite":
            # replace the event: swallow it and queue a rewritten copy from inside the hook
            ev = {"message": "Rewritten", "body": {"orig": event["message"], "k": len(self.rewritten)}}
            self.rewritten.append(ev)
            region.eq_manager.inject_event(dict(ev))
            return True
        return None


def _ip(n):
    return "10.77.%d.%d" % (n // 250, 1 + n % 250)


def make_event(kind, n, addr_n):
    ip, port = _ip(addr_n), 14000 + addr_n
    handle = (2000 + addr_n) << 32 | 3000
    # every connection to a simulator gets a fresh seed capability: a re-announced address comes with a new URL
    seed = "https://sim-new-%d.example.com/cap/seed-%d-%d" % (addr_n, addr_n, n)
    if kind == "plain":
        return {"message": "FooEvent%d" % (n % 3), "body": {"verif_n": n, "text": "e%d" % n}}
    if kind == "templated":
        return {"message": "AgentGroupDataUpdate", "body": {"AgentData": [{"AgentID": UUID(int=n)}], "GroupData": []}}
    if kind == "templated_partial":
        # a templated event may leave out a block altogether (simulators do for empty Variable blocks)
        return {"message": "AgentGroupDataUpdate", "body": {"AgentData": [{"AgentID": UUID(int=n)}]}}
    if kind == "plain_list":
        # a non-templated event whose body is not a map
        return {"message": "FooEvent%d" % (n % 3), "body": [n, "e%d" % n]}
    if kind == "plain_str":
        return {"message": "FooEvent%d" % (n % 3), "body": "e%d" % n}
    if kind == "establish":
        return {"message": "EstablishAgentCommunication", "body": {"agent-id": UUID(int=1), "sim-ip-and-port": "%s:%d" % (ip, port), "seed-capability": seed}}
    if kind == "enable":
        return {"message": "EnableSimulator", "body": {"SimulatorInfo": [{"Handle": struct.pack("!Q", handle), "IP": socket.inet_aton(ip), "Port": port}]}}
    if kind == "teleport":
        return {"message": "TeleportFinish", "body": {"Info": [{"AgentID": UUID(int=1), "LocationID": struct.pack("!I", 4), "SimIP": socket.inet_aton(ip), "SimPort": port,
                                                                  "RegionHandle": struct.pack("!Q", handle), "SeedCapability": seed, "SimAccess": 13,
                                                                  "TeleportFlags": struct.pack("!I", 0)}]}}
    if kind == "crossed":
        return {"message": "CrossedRegion", "body": {"AgentData": [{"AgentID": UUID(int=1), "SessionID": UUID(int=2)}],
                                                      "RegionData": [{"SimIP": socket.inet_aton(ip), "SimPort": port, "RegionHandle": struct.pack("!Q", handle),
                                                                      "SeedCapability": seed}],
                                                      "Info": [{"Position": [1.0, 2.0, 3.0], "LookAt": [1.0, 0.0, 0.0]}]}}
    raise ValueError(kind)


ANNOUNCE = ("establish", "enable", "teleport", "crossed")


class Run:
    def __init__(self):
        self.addon = Addon()
        self.w = HttpWorld(1, 1, addons=[self.addon])
        self.sess = self.w.sessions[0]
        self.region = self.sess.regions[0]
        self.region.circuit = ProxiedCircuit(("127.0.0.1", 1), self.region.circuit_addr, MockTransport())
        self.eq_url = "https://sim-0-0.example.com:12043/cap/eq-0-0"
        self.region.update_caps({"EventQueueGet": self.eq_url})
        # model
        self.viewer_ack = None
        self.sim_id = 0
        self.event_n = 0
        self.pending_inj = []
        self.cache = (None, None)      # (request ack, payload) of the last 200 response that carried events
        self.addresses = set()
        self.n_regions0 = len(self.sess.regions)
        self.seeds = {}
        self.counts = {}
        self.nontrivial = False
        self.inj_n = 0

    def count(self, k, n=1):
        self.counts[k] = self.counts.get(k, 0) + n

    def norm(self, v):
        return llsd.parse_xml(llsd.format_xml(v))

    def inject(self, n, as_message):
        for _ in range(n):
            self.inj_n += 1
            if as_message:
                msg = Message("AlertMessage", Block("AlertData", Message="inj%d" % self.inj_n))
                expected = self.region.eq_manager.llsd_message_serializer.serialize(msg, True)
                self.region.eq_manager.inject_message(msg)
            else:
                expected = {"message": "InjectedEvent", "body": {"inj_n": self.inj_n}}
                self.region.eq_manager.inject_event(dict(expected))
            self.pending_inj.append(expected)
        self.nontrivial = True
        return []

    def inject_other(self):
        """an addon queues an event for ANOTHER region of the session (a neighbour that is not being polled here): it is that region's"""
        others = [r for r in self.sess.regions if r is not self.region]
        if not others:
            others = [self.sess.register_region(circuit_addr=("10.78.0.1", 15000), seed_url="https://sim-other.example.com/cap/seed-other", handle=(7000 << 32) | 3000)]
            self.n_regions0 += 1
        r = others[self.inj_n % len(others)]
        if r.circuit is None:
            r.circuit = ProxiedCircuit(("127.0.0.1", 1), r.circuit_addr, MockTransport())
        self.inj_n += 1
        r.eq_manager.inject_event({"message": "ForTheNeighbour", "body": {"inj_n": self.inj_n}})
        self.count("injected_elsewhere")
        self.nontrivial = True
        return []

    def cycle_announced(self, addr_n):
        """the connection to an announced neighbour comes up and is torn down again (DisableSimulator): it stays the same region"""
        addr = (_ip(addr_n), 14000 + addr_n)
        regs = [r for r in self.sess.regions if r.circuit_addr == addr]
        if not regs:
            return None
        r = regs[0]
        r.circuit = ProxiedCircuit(("127.0.0.1", 1), r.circuit_addr, MockTransport())
        r.mark_dead()
        self.count("announced_torn_down")
        return []

    def teardown(self):
        self.region.mark_dead()
        self.region.circuit = ProxiedCircuit(("127.0.0.1", 1), self.region.circuit_addr, MockTransport())
        self.viewer_ack = None
        self.pending_inj = []
        self.cache = (None, None)
        self.count("teardowns")
        return []

    def poll(self, events, decisions, lose, status, undef_body, _repoll=0):
        """events: list of (kind, addr_n); returns violations"""
        out = []
        w = self.w
        self.count("polls")
        req_body = llsd.format_xml({"ack": self.viewer_ack, "done": False})
        flow = w.make_flow("POST", self.eq_url, body=req_body, headers={"Content-Type": "application/llsd+xml"})
        items, exc = w.pump("request", flow.get_state())
        if exc is not None or len(items) != 1:
            return [("poll:request-handback", "EventQueueGet request: %d hand-backs, exception %r" % (len(items), exc))]
        f2 = HTTPFlow.from_state(items[0][2])
        cached_ack, cached_payload = self.cache
        expect_replay = cached_payload is not None and cached_ack == self.viewer_ack
        if f2.response is not None and f2.metadata.get("response_injected"):
            # served by the proxy itself; the HTTP proxy process still runs its response stage for such a flow before the viewer gets it
            items_r, exc_r = w.pump("response", f2.get_state())
            if exc_r is not None or len(items_r) != 1:
                return out + [("poll:response-handback", "proxy-served EventQueueGet response: %d hand-backs, exception %r" % (len(items_r), exc_r))]
            f2 = HTTPFlow.from_state(items_r[0][2])
            got = llsd.parse_xml(f2.response.content)
            if not expect_replay:
                out.append(("replay:unexpected", "proxy answered a poll (ack %r) itself with %r although nothing was lost" % (self.viewer_ack, got)))
            elif self.norm(got) != self.norm(cached_payload):
                out.append(("replay:differs", "replayed response differs from the previous one: %r vs %r" % (got, cached_payload)))
            self.count("replays")
            received_status, received = 200, got
        else:
            if expect_replay:
                out.append(("replay:missing", "a poll repeating ack %r was forwarded upstream instead of being answered with the previous response" % (self.viewer_ack,)))
            # the simulator answers
            sim_events = []
            if status == 200 and not undef_body:
                self.sim_id += 1
                for kind, addr_n in events:
                    self.event_n += 1
                    sim_events.append(make_event(kind, self.event_n, addr_n))
                body = {"id": self.sim_id, "events": sim_events}
            elif status == 200:
                body = None
            else:
                body = {"error": "timeout", "status": status}
            self.addon.decisions = list(decisions[:len(sim_events)]) + ["ignore"] * max(0, len(sim_events) - len(decisions))
            self.addon.seen = []
            self.addon.rewritten = []
            n_regions_before = len(self.sess.regions)
            f2.response = tutils.tresp(status_code=status, content=llsd.format_xml(body))
            f2.response.headers["Content-Type"] = "application/llsd+xml"
            items, exc = w.pump("response", f2.get_state())
            if exc is not None or len(items) != 1:
                return out + [("poll:response-handback", "EventQueueGet response: %d hand-backs, exception %r" % (len(items), exc))]
            f3 = HTTPFlow.from_state(items[0][2])
            received_status = f3.response.status_code
            received = llsd.parse_xml(f3.response.content)
            # expectation
            if status == 200 and not undef_body:
                kept = [e for e, d in zip(sim_events, self.addon.decisions + ["ignore"] * len(sim_events)) if False]
                decs = list(decisions[:len(sim_events)]) + ["ignore"] * max(0, len(sim_events) - len(decisions))
                kept = [e for e, d in zip(sim_events, decs) if d not in ("swallow", "rewrite")]
                n_sw = len(sim_events) - len(kept)
                if n_sw:
                    self.count("swallowed", n_sw)
                    self.nontrivial = True
                # events queued from inside the hooks are injections like any other: this response is the next one that carries events
                in_hook = [{"message": "Rewritten", "body": {"orig": e["message"], "k": k}}
                           for k, e in enumerate(e for e, d in zip(sim_events, decs) if d == "rewrite")]
                if in_hook:
                    self.count("injected_in_hook", len(in_hook))
                new_events = kept + self.pending_inj + in_hook
                if self.pending_inj:
                    self.count("injected_delivered", len(self.pending_inj))
                self.pending_inj = []
                if sim_events and not new_events:
                    expected = None
                    self.count("emptied_to_undef")
                else:
                    expected = {"id": self.sim_id, "events": new_events}
                self.cache = (self.viewer_ack, expected)
                if len(self.addon.seen) != len(sim_events):
                    out.append(("hook:invocations", "addon hook saw %d of %d simulator events" % (len(self.addon.seen), len(sim_events))))
                # region registration
                for (kind, addr_n), d, ev in zip(events, decs, sim_events):
                    if kind in ANNOUNCE and d not in ("swallow", "rewrite"):
                        if addr_n in self.addresses:
                            self.count("regions_reannounced")
                        self.addresses.add(addr_n)
                        self.count("regions_announced")
                        seed = {"establish": lambda e: e["body"]["seed-capability"], "teleport": lambda e: e["body"]["Info"][0]["SeedCapability"],
                                "crossed": lambda e: e["body"]["RegionData"][0]["SeedCapability"]}.get(kind)
                        if seed is not None:
                            self.seeds[addr_n] = seed(ev)
                for addr_n, seed in self.seeds.items():
                    addr = (_ip(addr_n), 14000 + addr_n)
                    regs = [r for r in self.sess.regions if r.circuit_addr == addr]
                    if len(regs) == 1 and regs[0].cap_urls.get("Seed") != seed:
                        out.append(("regions:seed-not-recorded", "region %r was announced with seed %s but has %r" % (addr, seed, regs[0].cap_urls.get("Seed"))))
                    elif len(regs) == 1:
                        cd = w.sm.resolve_cap(seed + "/x")
                        if cd is None or cd.region is None or cd.region() is not regs[0]:
                            out.append(("regions:seed-not-resolvable", "the seed announced for %r does not resolve to that region" % (addr,)))
                if len(self.sess.regions) != self.n_regions0 + len(self.addresses):
                    out.append(("regions:count", "session has %d regions after %d distinct announced addresses (+%d initial)" % (
                        len(self.sess.regions), len(self.addresses), self.n_regions0)))
            else:
                expected = body
            if self.norm(received) != self.norm(expected) or received_status != status:
                kind = "events"
                if status == 200 and not undef_body:
                    got_ev = (received or {}).get("events", []) if isinstance(received, dict) else []
                    exp_ev = (expected or {}).get("events", []) if isinstance(expected, dict) else []
                    if expected is None:
                        kind = "not-undef-when-emptied"
                    elif received is None:
                        kind = "undef-but-events-expected"
                    elif len(got_ev) < len(exp_ev):
                        kind = "lost"
                    elif len(got_ev) > len(exp_ev):
                        kind = "extra"
                    else:
                        kind = "reordered-or-altered"
                else:
                    kind = "passthrough-altered"
                out.append(("stream:%s" % kind, "poll (ack %r, status %d): viewer would receive %r, model %r" % (self.viewer_ack, status, received, expected)))
        if out:
            return out
        if int(lose) > _repoll:
            self.nontrivial = True
            # the response never reached the viewer: it polls again with the same acknowledgement (and that answer may get lost too)
            if _repoll == 1:
                # meanwhile an addon queues an event: it waits for the next response from the simulator, the replay is the old response
                self.inject(1, False)
            return self.poll([("plain", 0)], [], lose, 200, False, _repoll=_repoll + 1)
        if received_status == 200 and isinstance(received, dict) and "id" in received:
            self.viewer_ack = received["id"]
        return out

    def step(self, op):
        k = op[0]
        if k == "poll":
            return self.poll(op[1], op[2], op[3], op[4], op[5])
        if k == "inject":
            return self.inject(op[1], op[2])
        if k == "teardown":
            return self.teardown()
        if k == "inject_other":
            return self.inject_other()
        if k == "cycle_announced":
            return self.cycle_announced(op[1])
        raise ValueError(op)

    def close(self):
        self.w.close()


ALPHABET = [
    ("poll", [("plain", 0)], [], False, 200, False),
    ("poll", [("plain", 0), ("templated", 0)], ["swallow"], False, 200, False),
    ("poll", [("plain", 0)], ["swallow"], False, 200, False),
    ("poll", [("plain", 0), ("templated_partial", 0)], [], 2, 200, False),
    ("poll", [("enable", 1), ("establish", 1)], ["one", "raise"], False, 200, False),
    ("poll", [], [], False, 502, False),
    ("poll", [], [], False, 200, True),
    ("inject", 1, False),
    ("inject", 2, True),
    ("teardown",),
    ("poll", [("plain", 0)], ["rewrite"], False, 200, False),
]

EVENT = st.tuples(st.sampled_from(["plain", "plain", "templated", "templated_partial", "plain_list", "plain_str", "establish", "enable", "teleport", "crossed"]), st.integers(0, 4))
DECISION = st.sampled_from(["ignore", "ignore", "swallow", "one", "yes", "raise", "rewrite"])
OP = st.one_of(
    st.tuples(st.just("poll"), st.lists(EVENT, min_size=1, max_size=4), st.lists(DECISION, max_size=4), st.integers(0, 7).map(lambda i: {0: 1, 1: 2}.get(i, 0)),
              st.just(200), st.just(False)),
    st.tuples(st.just("poll"), st.lists(EVENT, min_size=1, max_size=3), st.lists(st.just("swallow"), min_size=3, max_size=3), st.booleans(), st.just(200), st.just(False)),
    st.tuples(st.just("poll"), st.just([]), st.just([]), st.just(False), st.sampled_from([499, 502, 404]), st.just(False)),
    st.tuples(st.just("poll"), st.just([]), st.just([]), st.just(False), st.just(200), st.just(True)),
    st.tuples(st.just("inject"), st.integers(1, 3), st.booleans()),
    st.tuples(st.just("teardown")),
    st.tuples(st.just("inject_other")),
    st.tuples(st.just("cycle_announced"), st.integers(0, 4)),
)


def run_history(ctx, ops):
    run = Run()
    res = []
    try:
        for op in ops:
            r = run.step(tuple(op))
            if r is None:
                continue
            res.extend(r)
            if res:
                break
    finally:
        run.close()
    if ctx is not None:
        ctx.count("histories")
        for k, v in run.counts.items():
            ctx.count(k, v)
    return res, run


def shards(tier):
    th = tier == "thorough"
    depth = 6 if th else 4
    sh = []
    for a in range(len(ALPHABET)):
        for b in range(len(ALPHABET)):
            sh.append({"kind": "enum", "prefix": [a, b], "depth": depth})
    for i in range(16):
        sh.append({"kind": "hist", "n": 1300 if th else 80, "maxlen": 60 if th else 30})
    return sh


def run_shard(ctx, shard):
    if shard["kind"] == "enum":
        n = nt = 0
        sample = None

        def rec(seq):
            nonlocal n, nt, sample
            ops = [ALPHABET[i] for i in seq]
            res, run = run_history(ctx, ops)
            n += 1
            if run.nontrivial:
                nt += 1
                sample = sample or ops
            if res:
                ctx.report([list(o) for o in ops], res)
                return
            if len(seq) < shard["depth"]:
                for i in range(len(ALPHABET)):
                    rec(seq + [i])
        rec(list(shard["prefix"]))
        ctx.bulk(n, nt, None, sample)
    else:
        def body(ops):
            res, run = run_history(ctx, ops)
            ctx.case(ops, nontrivial=run.nontrivial, classes=[])
            return res
        hyp_run(ctx, st.lists(OP, min_size=2, max_size=shard["maxlen"]), body, shard["n"])


def _fix(o):
    if isinstance(o, list):
        return [_fix(x) for x in o]
    if isinstance(o, tuple):
        return tuple(_fix(x) for x in o)
    return o


def replay(ctx, case):
    ops = []
    for op in case:
        op = list(op)
        if op[0] == "poll":
            op[1] = [tuple(e) for e in op[1]]
        ops.append(tuple(op))
    res, _ = run_history(None, ops)
    return res
