"""C16 - capability URLs are attributed to the right cap, region and session."""
from hypothesis import strategies as st
from mitmproxy.http import HTTPFlow

from hippolyzer.lib.base import llsd
from hippolyzer.lib.base.test_utils import MockTransport
from hippolyzer.lib.proxy.caps import CapType, is_asset_server_cap_name
from hippolyzer.lib.proxy.circuit import ProxiedCircuit

from vlib.http_harness import HttpWorld
from vlib.runner import hyp_run

PROPERTY = "C16"
LEVEL = "exploration"
RULE = ("operation histories over 2 sessions x 2 regions: seed grants delivered through real Seed request/response flows "
        "(1-6 names with fresh UUID-style URLs, repeated names, re-granted identical URLs, non-URL values, asset caps, requests "
        "listing proxy-only names adjacent or interleaved), register_cap NORMAL/TEMPORARY, register_wrapper_cap, "
        "register_proxy_cap (repeated), circuits coming up and being torn down, re-announced seeds, global asset URLs, URLs ending in '/' or "
        "carrying a query, grants of nothing; lookups by URL (base + suffix '', '/x', '?a=b', 'item', '&p=2') and by name, compared after every step "
        "with a prepend-on-add model.  A 10% class of prefix-related / identical URLs is only checked for validity (one of the "
        "matching entries).  Non-trivial = history with >= 2 grants of one name or a temporary/proxy-only cap; distinct by content.")
ASSUMPTIONS = [
    "cap URLs are distinct and not prefixes of one another unless the case is in the explicitly marked ambiguous class",
    "asset caps (GetMesh*, GetTexture*, ViewerAsset*) resolve without region/session unless registered as wrappers, as the code documents",
]
FLOORS = {"quick": {"histories": 600, "lookups": 8000, "seed_flows": 1500, "temporary_resolved": 150, "proxy_cap_twice": 150,
                    "regrant_same_name": 300, "ambiguous_lookups": 50, "circuit_torn_down": 12, "regrant_older_url": 40, "seed_overlaps": 8, "used_up_rechecked": 100}}
MANIFEST = {
    "text": "Model-based testing of the caps registry through its public entry points and real Seed flows: after every operation "
            "every URL ever granted is resolved (with suffixes) and every name looked up, and compared with a reference model of "
            "prepend-on-add multidicts; Seed request/response rewriting is compared with the model's expectation.",
    "note": "Sampling over histories of bounded length; HTTP flows are mitmproxy test flows whose state crosses a pickling queue.",
    "technique": "Hypothesis-generated operation histories against a reference model (stateful model-based testing)",
}

ASSET_NAMES = ["GetMesh", "GetMesh2", "GetTexture", "ViewerAsset"]
NAMES = ["FetchInventory2", "EventQueueGet", "UploadBakedTexture", "SimulatorFeatures", "NewFileAgentInventory", "UpdateScriptAgent"] + ASSET_NAMES
PROXY_NAMES = ["HippoProxyA", "HippoProxyB", "HippoProxyC"]


class Model:
    def __init__(self, world):
        self.entries = {}       # (s, r) -> list of dict(name,type,url) newest first overall insertion order tracked per name
        for s, sess in enumerate(world.sessions):
            for r, region in enumerate(sess.regions):
                self.entries[(s, r)] = [{"name": "Seed", "type": CapType.NORMAL, "url": region.caps["Seed"][1]}]

    def add(self, key, name, typ, url):
        self.entries[key].insert(0, {"name": name, "type": typ, "url": url})

    def by_name(self, key, name):
        for e in self.entries[key]:
            if e["name"] == name:
                return e
        return None

    def matches(self, url):
        out = []
        for key, lst in self.entries.items():
            for e in lst:
                if url.startswith(e["url"]):
                    out.append((key, e))
        return out


def seed_cycle(world, s, r, requested, grant):
    """one Seed request + response through the event manager.  returns (rewritten request list, rewritten response map, errors)"""
    sess = world.sessions[s]
    region = sess.regions[r]
    seed_url = region.caps["Seed"][1]
    flow = world.make_flow("POST", seed_url, body=llsd.format_xml(requested), headers={"Content-Type": "application/llsd+xml"})
    items, exc = world.pump("request", flow.get_state())
    errs = []
    if exc is not None or len(items) != 1:
        return None, None, [("seed:request-handback", "Seed request: %d hand-backs, exception %r" % (len(items), exc))]
    state = items[0][2]
    f2 = HTTPFlow.from_state(state)
    sent = llsd.parse_xml(f2.request.content)
    # the simulator answers
    from mitmproxy.test import tutils
    f2.response = tutils.tresp(status_code=200, content=llsd.format_xml(grant))
    f2.response.headers["Content-Type"] = "application/llsd+xml"
    items, exc = world.pump("response", f2.get_state())
    if exc is not None or len(items) != 1:
        return sent, None, [("seed:response-handback", "Seed response: %d hand-backs, exception %r" % (len(items), exc))]
    f3 = HTTPFlow.from_state(items[0][2])
    return sent, llsd.parse_xml(f3.response.content), errs


def seed_request(world, s, r, requested):
    region = world.sessions[s].regions[r]
    flow = world.make_flow("POST", region.caps["Seed"][1], body=llsd.format_xml(requested), headers={"Content-Type": "application/llsd+xml"})
    items, exc = world.pump("request", flow.get_state())
    if exc is not None or len(items) != 1:
        return None, None
    f2 = HTTPFlow.from_state(items[0][2])
    return llsd.parse_xml(f2.request.content), f2


def seed_response(world, f2, grant):
    from mitmproxy.test import tutils
    f2.response = tutils.tresp(status_code=200, content=llsd.format_xml(grant))
    f2.response.headers["Content-Type"] = "application/llsd+xml"
    items, exc = world.pump("response", f2.get_state())
    if exc is not None or len(items) != 1:
        return None
    return llsd.parse_xml(HTTPFlow.from_state(items[0][2]).response.content)


class Run:
    def __init__(self, hist):
        self.w = HttpWorld(2, 2)
        self.m = Model(self.w)
        self.counts = {}
        self.nontrivial = False
        self.url_n = 0
        self.proxy_urls = {}
        self.ambiguous_urls = set()
        self.consumed = set()
        self.used_up = []

    def count(self, k, n=1):
        self.counts[k] = self.counts.get(k, 0) + n

    def fresh_url(self, s, r):
        self.url_n += 1
        base = "https://sim-%d-%d.example.com:12043/cap/%08x-aaaa-bbbb-cccc-%012x" % (s, r, self.url_n, self.url_n * 7919)
        # other grids hand out URLs that end in a delimiter themselves (".../CAPS/<uuid>/") or carry a query
        return base + {3: "/", 4: "?token=%d" % self.url_n}.get(self.url_n % 6, "")

    def region(self, s, r):
        return self.w.sessions[s].regions[r]

    def check_all(self):
        out = []
        w, m = self.w, self.m
        for key, lst in m.entries.items():
            s, r = key
            region = self.region(s, r)
            # by name
            for name in {e["name"] for e in lst}:
                want = m.by_name(key, name)
                try:
                    got_type, got_url = region.caps[name]
                    url2 = region.cap_urls[name]
                except KeyError:
                    out.append(("by-name:missing", "region %r has no cap %s (model: %s)" % (key, name, want["url"])))
                    continue
                if got_url != want["url"] or url2 != want["url"] or got_type != want["type"]:
                    out.append(("by-name:not-most-recent", "cap %s of region %r resolves to %s (%s), most recent grant is %s (%s)" % (
                        name, key, got_url, got_type.name, want["url"], want["type"].name)))
            # by url (temporary caps are consumed by a lookup: do not touch them here)
            for e in lst:
                if e["type"] == CapType.TEMPORARY:
                    continue
                for suffix in ("", "/x", "?a=b", "item", "&p=2"):
                    url = e["url"] + suffix
                    self.count("lookups")
                    out.extend(self.check_lookup(url))
        # a one-shot cap that was used stays used, whatever has been registered since
        for name, url in self.used_up[-6:]:
            if m.matches(url):
                continue        # the same URL has been granted again since (or extends another grant)
            self.count("used_up_rechecked")
            cd = w.sm.resolve_cap(url)
            if cd and cd.cap_name == name and cd.base_url == url:
                out.append(("temporary:resolves-twice:later", "one-shot cap %s (%s) resolved again after it had been used" % (name, url)))
            for key in m.entries:
                try:
                    if self.region(*key).cap_urls.get(name) == url and not any(e["url"] == url for e in m.entries[key]):
                        out.append(("temporary:still-listed", "used one-shot cap %s is still listed under its name in region %r" % (name, key)))
                except Exception:
                    pass
        return out

    def check_lookup(self, url, expect_consumed=False):
        w, m = self.w, self.m
        out = []
        cands = m.matches(url)
        self.last_cd = None
        try:
            cd = w.sm.resolve_cap(url)
        except Exception as e:
            return [("resolve:raises:%s" % type(e).__name__, "resolve_cap(%s) raised %r" % (url, e))]
        self.last_cd = cd
        if not cands:
            if cd:
                out.append(("resolve:unknown-url-resolved", "%s resolved to %r although nothing was granted for it" % (url, cd.cap_name)))
            return out
        ambiguous = len({(k, e["name"], e["url"]) for k, e in cands}) > 1
        ok = False
        for key, e in cands:
            s, r = key
            asset_plain = is_asset_server_cap_name(e["name"]) and e["type"] != CapType.WRAPPER
            want_region = None if asset_plain else self.region(s, r)
            want_session = None if asset_plain else w.sessions[s]
            got_region = cd.region() if cd.region else None
            got_session = cd.session() if cd.session else None
            if cd.cap_name == e["name"] and cd.type == e["type"] and cd.base_url == e["url"] and got_region is want_region and got_session is want_session:
                ok = True
                break
        if ambiguous:
            self.count("ambiguous_lookups")
        if ok:
            # what a lookup resolved to is what the other process hands back for the response event: the attribution survives the transfer
            try:
                rt = type(cd).deserialize(cd.serialize(), w.sm)
                same = (rt.cap_name == cd.cap_name and rt.type == cd.type and rt.base_url == cd.base_url
                        and (rt.region() if rt.region else None) is (cd.region() if cd.region else None)
                        and (rt.session() if rt.session else None) is (cd.session() if cd.session else None))
                if not same:
                    out.append(("resolve:attribution-lost-in-transfer", "%s resolved to %s/%s, after serialize + deserialize it is %s/%s" % (
                        url, cd.cap_name, getattr(cd.type, "name", cd.type), rt.cap_name, getattr(rt.type, "name", rt.type))))
            except Exception as e:
                out.append(("resolve:transfer-raises:%s" % type(e).__name__, "serialize + deserialize of the resolved attribution raised %r" % (e,)))
        if not ok:
            key, e = cands[0]
            out.append(("resolve:%s" % ("ambiguous-invalid" if ambiguous else "misattributed"),
                        "%s resolved to name=%r type=%s base=%r region=%r session=%r; granted as %s (%s) to session %d region %d" % (
                            url, cd.cap_name, getattr(cd.type, "name", cd.type), cd.base_url,
                            cd.region() if cd.region else None, cd.session() if cd.session else None, e["name"], e["type"].name, key[0], key[1])))
        return out

    def _model_consume_resolved(self, cd):
        for key, lst in self.m.entries.items():
            for x in lst:
                if x["type"] == CapType.TEMPORARY and x["name"] == cd.cap_name and x["url"] == cd.base_url:
                    self.m.entries[key] = [y for y in lst if y is not x]
                    self.used_up.append((x["name"], x["url"]))
                    return True
        return False

    def _model_consume(self, key, e):
        """a one-shot cap is used up by the lookup that resolves to it.  With prefix-related URLs the lookup may legitimately
        resolve to another grant the URL also extends (the statement does not rank them): then *that* one was used, not e."""
        cd = self.last_cd
        if cd is None:
            return False
        if cd.cap_name == e["name"] and cd.base_url == e["url"]:
            self.m.entries[key] = [x for x in self.m.entries[key] if x is not e]
            self.used_up.append((e["name"], e["url"]))
            return True
        self.count("temporary_shadowed_by_prefix")
        if cd.type == CapType.TEMPORARY:
            self._model_consume_resolved(cd)
        return False

    def step(self, op):
        k = op[0]
        out = []
        w, m = self.w, self.m
        if k == "seed":
            _, s, r, names, reuse, junk, req_proxy, adjacent = op
            key = (s, r)
            region = self.region(s, r)
            grant = {}
            for n in names:
                prev = m.by_name(key, n)
                if prev is not None:
                    self.count("regrant_same_name")
                    self.nontrivial = True
                if reuse and prev is not None and prev["type"] == CapType.NORMAL:
                    # the simulator grants a URL it has granted before: the latest one again, or an older one (u1, u2, u1)
                    olds = [e["url"] for e in m.entries[key] if e["name"] == n and e["type"] == CapType.NORMAL]
                    distinct = list(dict.fromkeys(olds))
                    grant[n] = distinct[1] if len(distinct) >= 2 and len(names) % 2 else distinct[0]
                    if grant[n] != prev["url"]:
                        self.count("regrant_older_url")
                elif n in ASSET_NAMES and len(names) % 3 == 0:
                    # asset caps are typically one global CDN URL handed to every agent in every region
                    grant[n] = "https://asset-cdn.example.com/cap/%s" % n.lower()
                    self.count("global_asset_url")
                else:
                    grant[n] = self.fresh_url(s, r)
            if junk:
                grant["SomeNumber"] = 5
                grant["NotAUrl"] = "ftp-ish-value"
                grant["EmptyList"] = []
            registered_proxy = [n for n in PROXY_NAMES if m.by_name(key, n) is not None and m.by_name(key, n)["type"] == CapType.PROXY_ONLY]
            want_proxy = [n for n in req_proxy if n in registered_proxy]
            unknown_proxy = [n for n in req_proxy if n not in registered_proxy]
            requested = list(names)
            if adjacent:
                requested = requested + want_proxy + unknown_proxy
            else:
                mixed = []
                extra = want_proxy + unknown_proxy
                for i, n in enumerate(requested):
                    mixed.append(n)
                    if i < len(extra):
                        mixed.append(extra[i])
                mixed += extra[len(requested):]
                requested = mixed
            sent, resp, errs = seed_cycle(w, s, r, requested, grant)
            self.count("seed_flows")
            out.extend(errs)
            if sent is not None:
                want_sent = [n for n in requested if n not in want_proxy]
                if list(sent) != want_sent:
                    leaked = [n for n in sent if n in want_proxy]
                    out.append(("seed-request:%s" % ("proxy-only-leaked" if leaked else "altered"),
                                "Seed request %r was forwarded as %r (expected %r)" % (requested, list(sent), want_sent)))
            # model: the grant is registered (http values only), wrappers for asset names
            for n, u in grant.items():
                if isinstance(u, str) and u.startswith("http"):
                    m.add(key, n, CapType.NORMAL, u)
            expected = dict(grant)
            for n in ASSET_NAMES:
                if n in grant:
                    try:
                        wtype, wurl = region.caps[n + "ProxyWrapper"]
                    except KeyError:
                        out.append(("seed-response:no-wrapper", "no wrapper cap registered for %s" % n))
                        continue
                    # the whole point of a wrapper is a URL that belongs to one region of one session
                    for k2, lst in m.entries.items():
                        if k2 != key and any(e["type"] == CapType.WRAPPER and e["url"] == wurl for e in lst):
                            out.append(("seed-response:wrapper-not-unique", "wrapper %s presented to region %r is also region %r's" % (wurl, key, k2)))
                    m.add(key, n + "ProxyWrapper", CapType.WRAPPER, wurl)
                    expected[n] = wurl
                    # the wrapper stands for the URL granted *now*: same path and query, only scheme and host are the proxy's
                    import urllib.parse as _up
                    pw, pg = _up.urlsplit(wurl), _up.urlsplit(grant[n])
                    if (pw.path, pw.query) != (pg.path, pg.query) or pw.scheme != "http" or not pw.netloc.endswith(".hippo-proxy.localhost"):
                        out.append(("seed-response:stale-wrapper", "wrapper %s presented for %s granted as %s" % (wurl, n, grant[n])))
            for n in want_proxy:
                expected[n] = m.by_name(key, n)["url"]
            if resp is not None:
                if dict(resp) != expected:
                    diff = sorted(set(k2 for k2 in set(resp) | set(expected) if resp.get(k2) != expected.get(k2)))
                    kind = "proxy-cap" if any(d in PROXY_NAMES for d in diff) else ("asset-cap" if any(d in ASSET_NAMES for d in diff) else "other")
                    out.append(("seed-response:%s" % kind, "rewritten Seed response differs in %r: got %r expected %r" % (
                        diff, {d: resp.get(d) for d in diff}, {d: expected.get(d) for d in diff})))
        elif k == "register":
            _, s, r, name, temporary, prefix_of_existing = op
            key = (s, r)
            region = self.region(s, r)
            if prefix_of_existing and m.entries[key]:
                base = m.entries[key][-1]["url"]
                self.url_n += 1
                url = base + "/sub%d" % self.url_n       # prefix-related to an existing grant, but never the same URL as another cap
                self.ambiguous_urls.add(url)
            else:
                url = self.fresh_url(s, r)
            typ = CapType.TEMPORARY if temporary else CapType.NORMAL
            region.register_cap(name + ("Uploader" if temporary else ""), url, typ)
            m.add(key, name + ("Uploader" if temporary else ""), typ, url)
            self.nontrivial = self.nontrivial or temporary
        elif k == "burst_temp":
            _, s, r, name, n, which, suffix = op
            for _i in range(n):
                res = self.step(("register", s, r, name, True, False))
                if res:
                    return res
            key = (s, r)
            temps = [e for e in m.entries[key] if e["type"] == CapType.TEMPORARY and e["name"] == name + "Uploader"]
            e = temps[which % len(temps)]
            url = e["url"] + suffix
            out.extend(self.check_lookup(url))
            self.count("temporary_resolved")
            self._model_consume(key, e)
        elif k == "proxy":
            _, s, r, name, twice = op
            key = (s, r)
            region = self.region(s, r)
            prev = m.by_name(key, name)
            url = region.register_proxy_cap(name)
            for k2, lst in m.entries.items():
                if k2 != key and any(e["url"] == url for e in lst):
                    out.append(("proxy-cap:url-not-unique", "proxy-only cap %s of region %r got the URL that region %r already has: %s" % (name, key, k2, url)))
            if prev is not None and prev["type"] == CapType.PROXY_ONLY:
                self.count("proxy_cap_twice")
                if url != prev["url"]:
                    out.append(("proxy-cap:new-url-on-reregistration", "register_proxy_cap(%s) returned %s, earlier %s" % (name, url, prev["url"])))
                    m.add(key, name, CapType.PROXY_ONLY, url)
            else:
                m.add(key, name, CapType.PROXY_ONLY, url)
            if twice:
                self.count("proxy_cap_twice")
                url2 = region.register_proxy_cap(name)
                if url2 != url:
                    out.append(("proxy-cap:new-url-on-reregistration", "register_proxy_cap(%s) twice in a row: %s then %s" % (name, url, url2)))
                    m.add(key, name, CapType.PROXY_ONLY, url2)
            self.nontrivial = True
        elif k == "regrant3":
            # the simulator grants a cap as u1, then as u2, then as u1 again (three Seed cycles)
            _, s, r, name = op
            for reuse in (False, False, True):
                res = self.step(("seed", s, r, [name], reuse, False, [], True))
                if res:
                    return res
            return out
        elif k == "seed_overlap":
            # the viewer has two Seed requests for one region in flight (it re-requests capabilities it is still missing): the first lists
            # proxy-only names, the second does not; the answers come back in order.  What is added to an answer belongs to its own request
            _, s, r, names_a, names_b, req_proxy = op
            key = (s, r)
            plain = [n for n in NAMES if n not in ASSET_NAMES]
            names_a = [n for n in names_a if n in plain]
            names_b = [n for n in names_b if n in plain and n not in names_a]
            registered_proxy = [n for n in PROXY_NAMES if m.by_name(key, n) is not None and m.by_name(key, n)["type"] == CapType.PROXY_ONLY]
            want_proxy = [n for n in req_proxy if n in registered_proxy]
            if not want_proxy:
                return None
            sent_a, fa = seed_request(w, s, r, names_a + want_proxy)
            sent_b, fb = seed_request(w, s, r, names_b)
            if fa is None or fb is None:
                return [("seed:request-handback", "overlapping Seed requests were not handed back once each")]
            if list(sent_a) != names_a or list(sent_b) != names_b:
                out.append(("seed-request:altered", "overlapping Seed requests %r / %r were forwarded as %r / %r" % (names_a + want_proxy, names_b, sent_a, sent_b)))
            grant_a = {n: self.fresh_url(s, r) for n in names_a}
            grant_b = {n: self.fresh_url(s, r) for n in names_b}
            resp_a = seed_response(w, fa, grant_a)
            for n, u in grant_a.items():
                m.add(key, n, CapType.NORMAL, u)
            resp_b = seed_response(w, fb, grant_b)
            for n, u in grant_b.items():
                m.add(key, n, CapType.NORMAL, u)
            exp_a = dict(grant_a, **{n: m.by_name(key, n)["url"] for n in want_proxy})
            if resp_a is None or resp_b is None:
                out.append(("seed:response-handback", "overlapping Seed responses were not handed back once each"))
            else:
                if dict(resp_a) != exp_a:
                    out.append(("seed-response:proxy-cap:overlap", "first of two overlapping Seed answers: got %r expected %r" % (dict(resp_a), exp_a)))
                if dict(resp_b) != grant_b:
                    out.append(("seed-response:other:overlap", "second of two overlapping Seed answers: got %r expected %r" % (dict(resp_b), grant_b)))
            self.count("seed_overlaps")
            self.nontrivial = True
        elif k == "circuit":
            # the simulator connection of a region comes up / is torn down (DisableSimulator, CloseCircuit): its caps stay what they were
            _, s, r, up = op
            region = self.region(s, r)
            if up:
                region.circuit = ProxiedCircuit(("127.0.0.1", 1), region.circuit_addr, MockTransport())
                self.count("circuit_opened")
            elif region.circuit is not None:
                region.mark_dead()
                self.count("circuit_torn_down")
                self.nontrivial = True
        elif k == "reseed":
            # the region is announced again (teleport back, crossing, EstablishAgentCommunication) with a seed capability
            _, s, r, same = op
            key = (s, r)
            region = self.region(s, r)
            cur = m.by_name(key, "Seed")["url"]
            url = cur if same else self.fresh_url(s, r)       # like a real seed URL: unique last path component
            got = w.sessions[s].register_region(circuit_addr=region.circuit_addr, seed_url=url, handle=region.handle)
            if got is not region:
                out.append(("reseed:new-region-object", "register_region for a known circuit address returned a different region"))
            if not same:
                m.add(key, "Seed", CapType.NORMAL, url)
                self.nontrivial = True
            self.count("reseed")
        elif k == "use_temporary":
            _, s, r, suffix = op
            key = (s, r)
            temps = [e for e in m.entries[key] if e["type"] == CapType.TEMPORARY]
            if not temps:
                return None
            e = temps[len(temps) // 2]
            url = e["url"] + suffix
            out.extend(self.check_lookup(url))
            self.count("temporary_resolved")
            # consumed: model drops it
            if self._model_consume(key, e):
                cd = w.sm.resolve_cap(url)
                if cd and cd.cap_name == e["name"] and cd.base_url == e["url"]:
                    out.append(("temporary:resolves-twice", "temporary cap %s resolved a second time" % e["name"]))
                elif cd and cd.type == CapType.TEMPORARY:
                    # the second lookup fell through to another (prefix-related) one-shot cap and used that one up
                    self._model_consume_resolved(cd)
        else:
            raise ValueError(op)
        out.extend(self.check_all())
        return out

    def close(self):
        self.w.close()


OP = st.one_of(
    st.tuples(st.just("seed"), st.integers(0, 1), st.integers(0, 1), st.lists(st.sampled_from(NAMES), min_size=0, max_size=6, unique=True),
              st.booleans(), st.booleans(), st.lists(st.sampled_from(PROXY_NAMES), max_size=3, unique=True), st.booleans()),
    st.tuples(st.just("circuit"), st.integers(0, 1), st.integers(0, 1), st.booleans()),
    st.tuples(st.just("regrant3"), st.integers(0, 1), st.integers(0, 1), st.sampled_from(NAMES[:6])),
    st.tuples(st.just("seed_overlap"), st.integers(0, 1), st.integers(0, 1), st.lists(st.sampled_from(NAMES[:6]), max_size=3, unique=True),
              st.lists(st.sampled_from(NAMES[:6]), max_size=3, unique=True), st.lists(st.sampled_from(PROXY_NAMES), min_size=1, max_size=3, unique=True)),
    st.tuples(st.just("register"), st.integers(0, 1), st.integers(0, 1), st.sampled_from(["UploadBakedTexture", "NewFileAgentInventory", "Custom"]),
              st.booleans(), st.integers(0, 9).map(lambda i: i == 0)),
    st.tuples(st.just("proxy"), st.integers(0, 1), st.integers(0, 1), st.sampled_from(PROXY_NAMES), st.booleans()),
    st.tuples(st.just("use_temporary"), st.integers(0, 1), st.integers(0, 1), st.sampled_from(["", "/x", "?a=b"])),
    st.tuples(st.just("reseed"), st.integers(0, 1), st.integers(0, 1), st.integers(0, 3).map(lambda i: i == 0)),
    st.tuples(st.just("burst_temp"), st.integers(0, 1), st.integers(0, 1), st.sampled_from(["UploadBakedTexture", "NewFileAgentInventory"]),
              st.integers(2, 4), st.integers(0, 3), st.sampled_from(["", "/x"])),
)
HISTORY = st.lists(OP, min_size=2, max_size=30)


def run_history(ctx, ops):
    run = Run(ops)
    res = []
    try:
        for op in ops:
            r = run.step(tuple(op))
            if r is None:
                continue
            res.extend(r)
            if res:
                break
    finally:
        run.close()
    if ctx is not None:
        ctx.count("histories")
        for k, v in run.counts.items():
            ctx.count(k, v)
    return res, run


def shards(tier):
    th = tier == "thorough"
    return [{"kind": "hist", "n": 2000 if th else 170, "maxlen": 60 if th else 30} for _ in range(16)]


def run_shard(ctx, shard):
    def body(ops):
        res, run = run_history(ctx, ops[:shard["maxlen"]])
        ctx.case(ops, nontrivial=run.nontrivial, classes=[])
        return res
    hyp_run(ctx, st.lists(OP, min_size=2, max_size=shard["maxlen"]), body, shard["n"])


def replay(ctx, case):
    res, _ = run_history(None, [tuple(o) for o in case])
    return res
