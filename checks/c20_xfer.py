"""C20 part 4 - chunked transfers: Xfer (sender chunking by the real serve_inbound_xfer_request, receiver through the real
request() pump or _handle_send_xfer_packet) and Transfer (receiver only; the sender follows the repository's own test server),
under every / random arrival orders with duplicates."""
import asyncio
import itertools

from hypothesis import strategies as st

from hippolyzer.lib.base.datatypes import UUID
from hippolyzer.lib.base.message.circuit import Circuit
from hippolyzer.lib.base.message.message import Block, Message
from hippolyzer.lib.base.message.message_handler import MessageHandler
from hippolyzer.lib.base.message.udpdeserializer import UDPMessageDeserializer
from hippolyzer.lib.base.message.udpserializer import UDPMessageSerializer
from hippolyzer.lib.base.network.transport import Direction
from hippolyzer.lib.base.templates import (TransferChannelType, TransferStatus, TransferTargetType, TransferSourceType,
                                           TransferRequestParamsSimEstate, EstateAssetType, AssetType)
from hippolyzer.lib.base.test_utils import MockConnectionHolder
from hippolyzer.lib.base.transfer_manager import TransferManager, Transfer
from hippolyzer.lib.base.xfer_manager import XferManager, Xfer, MAX_CHUNK_SIZE

from vlib.proxy_harness import ensure_loop

SER = UDPMessageSerializer()
DESER = UDPMessageDeserializer()
BOUNDARY_SIZES = [0, 1, 2, MAX_CHUNK_SIZE - 6, MAX_CHUNK_SIZE - 5, MAX_CHUNK_SIZE - 4, MAX_CHUNK_SIZE - 3, MAX_CHUNK_SIZE,
                  2 * MAX_CHUNK_SIZE - 5, 2 * MAX_CHUNK_SIZE - 4, 2 * MAX_CHUNK_SIZE - 3, 3 * MAX_CHUNK_SIZE - 4, 3 * MAX_CHUNK_SIZE - 3,
                  4 * MAX_CHUNK_SIZE - 4, 4 * MAX_CHUNK_SIZE - 3, 5000]
TRANSFER_SIZES = [0, 1, 999, 1000, 1001, 1999, 2000, 2001, 3000, 3001, 4000, 5000]


class CapCircuit(Circuit):
    def __init__(self):
        super().__init__(("127.0.0.1", 1), ("127.0.0.1", 2), None)
        self.sent = []

    def _send_prepared_message(self, message, transport=None):
        self.sent.append(message)


def _spin(n=3):
    loop = ensure_loop()
    for _ in range(n):
        loop.run_until_complete(asyncio.sleep(0))


def payload_for(size, salt=0):
    return bytes((i * 31 + salt * 7 + (i >> 8)) & 0xFF for i in range(size))


def _wire(msg):
    return bytes(SER.serialize(msg))


_XFER_CACHE = {}


def xfer_sender_datagrams(size, salt=0):
    """what the real sending side puts on the wire for this payload, in its own order"""
    key = (size, salt)
    if key in _XFER_CACHE:
        return _XFER_CACHE[key]
    loop = ensure_loop()
    handler = MessageHandler()
    circ = CapCircuit()
    mgr = XferManager(MockConnectionHolder(circ, handler))
    xfer = Xfer(data=payload_for(size, salt))
    task = loop.create_task(mgr.serve_inbound_xfer_request(xfer, lambda m: True, wait_for_confirm=False))
    _spin()
    req = Message("RequestXfer", Block("XferID", ID=77, Filename=b"", FilePath=0, DeleteOnCompletion=False, UseBigPackets=False,
                                       VFileID=UUID(int=5), VFileType=AssetType.NOTECARD), direction=Direction.OUT)
    handler.handle(DESER.deserialize(_wire(req)))
    for _ in range(20):
        if task.done():
            break
        _spin()
    if not task.done():
        task.cancel()
        _spin()
        raise RuntimeError("sender did not finish")
    task.result()
    out = [_wire(m) for m in circ.sent if m.name == "SendXferPacket"]
    _XFER_CACHE[key] = out
    return out


def transfer_sender_datagrams(size, salt=0, chunk=1000):
    data = payload_for(size, salt)
    tid = UUID(int=0x7151)
    out = []
    n = 0
    while True:
        c, data = data[:chunk], data[chunk:]
        out.append(_wire(Message("TransferPacket", Block("TransferData", TransferID=tid, ChannelType=TransferChannelType.MISC, Packet=n,
                                                         Status=TransferStatus.OK if data else TransferStatus.DONE, Data=c))))
        if not data:
            break
        n += 1
    info = _wire(Message("TransferInfo", Block("TransferInfo", TransferID=tid, ChannelType=TransferChannelType.MISC,
                                               TargetType_=TransferTargetType.UNKNOWN, Status=TransferStatus.OK, Size=size,
                                               Params_=dict(EstateAssetType=EstateAssetType.COVENANT, AgentID=UUID(int=1), SessionID=UUID(int=2)))))
    return tid, info, out


class _Recv:
    def __init__(self, kind, via_pump, turbo=False):
        self.kind = kind
        self.via_pump = via_pump
        self.handler = MessageHandler()
        self.circ = CapCircuit()
        conn = MockConnectionHolder(self.circ, self.handler)
        if kind == "xfer":
            self.mgr = XferManager(conn)
            if via_pump:
                self.obj = self._in_loop(lambda: self.mgr.request(xfer_id=77, vfile_id=UUID(int=5), vfile_type=AssetType.NOTECARD, turbo=turbo))
            else:
                self.obj = Xfer(77, turbo=turbo)
        else:
            self.mgr = TransferManager(conn, UUID(int=1), UUID(int=2))
            if via_pump:
                self.obj = self._in_loop(lambda: self.mgr.request(
                    source_type=TransferSourceType.SIM_ESTATE, transfer_id=UUID(int=0x7151),
                    params=TransferRequestParamsSimEstate(EstateAssetType=EstateAssetType.COVENANT)))
            else:
                self.obj = Transfer(UUID(int=0x7151))
        if via_pump:
            _spin(2)

    @staticmethod
    def _in_loop(fn):
        async def go():
            return fn()
        return ensure_loop().run_until_complete(go())

    def feed(self, datagram):
        msg = DESER.deserialize(datagram)
        if self.via_pump:
            self.handler.handle(msg)
            _spin(3)
        elif self.kind == "xfer":
            self.mgr._handle_send_xfer_packet(msg, self.obj)
        elif msg.name == "TransferInfo":
            self.mgr._handle_transfer_info(msg, self.obj)
        else:
            self.mgr._handle_transfer_packet(msg, self.obj)

    def close(self):
        if self.via_pump:
            loop = ensure_loop()
            for t in asyncio.all_tasks(loop):
                t.cancel()
            _spin(2)
        for o in (self.obj._future, self.obj.size_known):
            if o.done() and not o.cancelled():
                o.exception()


def run_order(kind, size, order, via_pump=False, turbo=False, info_at=None, salt=0):
    """order = indices into the sender's datagram list (duplicates allowed); returns (results, facts)"""
    payload = payload_for(size, salt)
    if kind == "xfer":
        dgrams = xfer_sender_datagrams(size, salt)
        info = None
    else:
        _, info, dgrams = transfer_sender_datagrams(size, salt)
    n = len(dgrams)
    eof = n - 1
    out = []
    r = _Recv(kind, via_pump, turbo)
    received = set()
    was_done = False
    info_live = False
    facts = {"n": n, "completed": False, "dups": len(order) - len(set(order)), "reordered": list(order) != sorted(order)}
    try:
        for step, i in enumerate(order):
            if kind == "transfer" and info_at == step:
                info_live = not r.obj.done()        # a size hint that arrives after completion has nobody left to read it
                r.feed(info)
            try:
                r.feed(dgrams[i])
            except Exception as e:
                out.append(("%s:receive-raised:%s" % (kind, type(e).__name__), "arrival %d (chunk %d of %d) raised %r" % (step, i, n, e)))
                break
            received.add(i)
            want = was_done or (eof in received and all(k in received for k in range(eof + 1)))
            got = r.obj.done()
            if got and not want:
                out.append(("%s:done-early" % kind, "done() after arrivals %r though chunks %r of %d are missing" % (
                    list(order[:step + 1]), sorted(set(range(n)) - received), n)))
                break
            if want and not got:
                out.append(("%s:not-done" % kind, "all %d chunks arrived (%r) but done() is False" % (n, list(order[:step + 1]))))
                break
            if got and not was_done:
                was_done = True
                facts["completed"] = True
                if r.obj._future.exception() is not None:
                    out.append(("%s:failed" % kind, "completed with %r" % r.obj._future.exception()))
                    break
            if was_done:
                data = bytes(r.obj.reassemble_chunks())
                if data != payload:
                    k = next((j for j in range(min(len(data), len(payload))) if data[j] != payload[j]), min(len(data), len(payload)))
                    out.append(("%s:payload-differs" % kind, "reassembled %d bytes, sent %d; first difference at %d, arrivals %r" % (
                        len(data), len(payload), k, list(order[:step + 1]))))
                    break
            if kind == "xfer" and 0 in received:
                if not r.obj.size_known.done() or r.obj.size_known.result() != size or r.obj.expected_size != size:
                    out.append(("xfer:size-hint", "expected_size %r after chunk 0, payload is %d bytes" % (r.obj.expected_size, size)))
                    break
        if kind == "transfer" and info_at is not None and info_at < len(order) and info_live and not out:
            if r.obj.expected_size != size:
                out.append(("transfer:size-hint", "expected_size %r, payload is %d bytes" % (r.obj.expected_size, size)))
    finally:
        r.close()
    return out, facts


def all_orders(n, extra):
    """every arrival sequence over n chunks of length 1..n+extra"""
    for length in range(1, n + extra + 1):
        yield from itertools.product(range(n), repeat=length)


@st.composite
def random_case(draw):
    kind = draw(st.sampled_from(["xfer", "transfer"]))
    size = draw(st.one_of(st.sampled_from(BOUNDARY_SIZES if kind == "xfer" else TRANSFER_SIZES), st.integers(0, 9000)))
    per = MAX_CHUNK_SIZE if kind == "xfer" else 1000
    n = max(1, -(-(size + (4 if kind == "xfer" else 0)) // per))
    base = list(range(n))
    mode = draw(st.sampled_from(["perm", "perm+dups", "free"]))
    if mode == "free":
        order = draw(st.lists(st.integers(0, n - 1), min_size=1, max_size=n + 4))
    else:
        order = list(draw(st.permutations(base)))
        if mode == "perm+dups":
            for _ in range(draw(st.integers(1, 3))):
                order.insert(draw(st.integers(0, len(order))), draw(st.integers(0, n - 1)))
    return {"kind": kind, "size": size, "order": order, "via_pump": draw(st.booleans()), "turbo": draw(st.booleans()) if kind == "xfer" else False,
            "info_at": draw(st.one_of(st.none(), st.integers(0, len(order)))) if kind == "transfer" else None, "salt": draw(st.integers(0, 3))}


def run_case(c):
    return run_order(c["kind"], c["size"], c["order"], c["via_pump"], c["turbo"], c["info_at"], c.get("salt", 0))
