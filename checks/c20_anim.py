"""C20 part 2 - llanim animation assets, both format versions, wire-first: a reference encoder written from the format
description (struct.pack, no hippolyzer serializers) produces the asset bytes; the library must decode them to the documented
values, re-encode them to the same bytes, and its decoded model must be a fixed point of parse . serialise."""
import math
import struct

from hypothesis import strategies as st

from hippolyzer.lib.base.llanim import Animation, HandPose

F32S = st.one_of(st.floats(width=32, allow_nan=False, allow_infinity=False), st.sampled_from([0.0, 1.0, -1.0, 0.5, 3.4028234663852886e+38]))
POS_F32 = st.one_of(st.floats(min_value=0.0, max_value=120.0, width=32), st.sampled_from([0.0, 1.0, 0.03333333507180214, 60.0]))
S32 = st.one_of(st.integers(-2 ** 31, 2 ** 31 - 1), st.sampled_from([0, 1, -1, 2 ** 31 - 1, -2 ** 31]))
U16 = st.one_of(st.integers(0, 65535), st.sampled_from([0, 1, 32767, 32768, 65534, 65535]))
NAME = st.text(st.one_of(st.characters(min_codepoint=0x20, max_codepoint=0x7E), st.sampled_from(list("é中\U0001F600"))), max_size=10)
JOINT = st.one_of(st.sampled_from(["mPelvis", "mTorso", "mHead", "mShoulderLeft", ""]), NAME)
VOL16 = NAME.filter(lambda s: len(s.encode("utf8")) <= 16)


def _unit_xyz(draw):
    # x, y, z of a unit quaternion as f32: |v| <= 1
    while True:
        v = [draw(st.floats(min_value=-1.0, max_value=1.0, width=32)) for _ in range(3)]
        n = math.sqrt(sum(c * c for c in v))
        if n <= 1.0:
            return v
        v = [struct.unpack("<f", struct.pack("<f", c / (n * 1.0001)))[0] for c in v]
        if sum(c * c for c in v) <= 1.0:
            return v


@st.composite
def anim(draw):
    ver = draw(st.sampled_from([(0, 1), (1, 0), (1, 0)]))
    new = ver == (1, 0)
    d = {"ver": list(ver), "base_priority": draw(S32), "duration": draw(POS_F32), "emote": draw(NAME), "loop_in": draw(F32S),
         "loop_out": draw(F32S), "loop": draw(S32), "ease_in": draw(F32S), "ease_out": draw(F32S),
         "hand_pose": draw(st.sampled_from([int(h) for h in HandPose])), "joints": [], "constraints": []}
    for _ in range(draw(st.integers(0, 4))):
        rots, poss = [], []
        for _ in range(draw(st.integers(0, 4))):
            if new:
                rots.append([draw(U16), [draw(U16), draw(U16), draw(U16)]])
            else:
                rots.append([draw(F32S), _unit_xyz(draw)])
        for _ in range(draw(st.integers(0, 4))):
            if new:
                poss.append([draw(U16), [draw(U16), draw(U16), draw(U16)]])
            else:
                poss.append([draw(F32S), [draw(F32S), draw(F32S), draw(F32S)]])
        d["joints"].append({"name": draw(JOINT), "priority": draw(S32), "rot": rots, "pos": poss})
    for _ in range(draw(st.integers(0, 2))):
        d["constraints"].append({"chain": draw(st.integers(0, 255)), "type": draw(st.integers(0, 1)), "src": draw(VOL16),
                                 "src_off": [draw(F32S) for _ in range(3)], "tgt": draw(VOL16), "tgt_off": [draw(F32S) for _ in range(3)],
                                 "tgt_dir": [draw(F32S) for _ in range(3)], "ease": [draw(F32S) for _ in range(4)]})
    if new and d["duration"] == 0.0:
        # with a zero duration every raw time means t=0: only the canonical raw 0 can be expected back
        for j in d["joints"]:
            for k in j["rot"] + j["pos"]:
                k[0] = 0
    return d


def ref_encode(d) -> bytes:
    """http://wiki.secondlife.com/wiki/Internal_Animation_Format"""
    new = tuple(d["ver"]) == (1, 0)
    out = bytearray()
    out += struct.pack("<HHif", d["ver"][0], d["ver"][1], d["base_priority"], d["duration"])
    out += d["emote"].encode("utf8") + b"\x00"
    out += struct.pack("<ffiffI", d["loop_in"], d["loop_out"], d["loop"], d["ease_in"], d["ease_out"], d["hand_pose"])
    out += struct.pack("<I", len(d["joints"]))
    for j in d["joints"]:
        out += j["name"].encode("utf8") + b"\x00"
        out += struct.pack("<i", j["priority"])
        for keys in (j["rot"], j["pos"]):
            out += struct.pack("<i", len(keys))
            for t, v in keys:
                if new:
                    out += struct.pack("<HHHH", t, *v)
                else:
                    out += struct.pack("<ffff", t, *v)
    out += struct.pack("<i", len(d["constraints"]))
    for c in d["constraints"]:
        out += struct.pack("<BB", c["chain"], c["type"])
        out += c["src"].encode("utf8").ljust(16, b"\x00")
        out += struct.pack("<3f", *c["src_off"])
        out += c["tgt"].encode("utf8").ljust(16, b"\x00")
        out += struct.pack("<3f", *c["tgt_off"])
        out += struct.pack("<3f", *c["tgt_dir"])
        out += struct.pack("<4f", *c["ease"])
    return bytes(out)


def _close(a, b, scale):
    return abs(a - b) <= 1e-6 * max(1.0, scale) + 1e-9


def laws(d):
    out = []
    new = tuple(d["ver"]) == (1, 0)
    w = ref_encode(d)
    try:
        a = Animation.from_bytes(w)
    except Exception as e:
        return [("anim:parse-raised:%s" % type(e).__name__, "from_bytes raised %r" % (e,))]
    # decoded values are the documented ones
    dur = d["duration"]
    chk = [("major_version", a.major_version, d["ver"][0]), ("minor_version", a.minor_version, d["ver"][1]),
           ("base_priority", a.base_priority, d["base_priority"]), ("duration", a.duration, dur), ("emote_name", a.emote_name, d["emote"]),
           ("loop_in_point", a.loop_in_point, d["loop_in"]), ("loop_out_point", a.loop_out_point, d["loop_out"]), ("loop", a.loop, d["loop"]),
           ("ease_in_duration", a.ease_in_duration, d["ease_in"]), ("ease_out_duration", a.ease_out_duration, d["ease_out"]),
           ("hand_pose", int(a.hand_pose), d["hand_pose"])]
    for name, got, want in chk:
        if got != want:
            out.append(("anim:decode:%s" % name, "%s decoded as %r, wire says %r" % (name, got, want)))
    joints = list(a.joints.items(multi=True)) if hasattr(a.joints, "items") else []
    if [n for n, _ in joints] != [j["name"] for j in d["joints"]]:
        out.append(("anim:decode:joint-names", "joints %r, wire has %r" % ([n for n, _ in joints], [j["name"] for j in d["joints"]])))
    else:
        for (n, jo), j in zip(joints, d["joints"]):
            if jo.priority != j["priority"] or len(jo.rot_keyframes) != len(j["rot"]) or len(jo.pos_keyframes) != len(j["pos"]):
                out.append(("anim:decode:joint-shape", "joint %r priority/key counts differ" % n))
                continue
            for kf, (t, v) in zip(jo.rot_keyframes, j["rot"]):
                wt = t / 65535.0 * dur if new else t
                wv = [c / 65535.0 * 2.0 - 1.0 for c in v] if new else v
                if not _close(kf.time, wt, dur):
                    out.append(("anim:decode:rot-time", "rot key time %r, expected %r (raw %r, duration %r)" % (kf.time, wt, t, dur)))
                got = (kf.rot.X, kf.rot.Y, kf.rot.Z)
                # 0 sits between two raw values in the -1..1 quantisation; both decode to (+-)0
                if any(not _close(g, x, 1.0) and not (new and abs(x) < 2.0 / 65535 and g == 0.0) for g, x in zip(got, wv)):
                    out.append(("anim:decode:rot-value", "rot key %r, expected %r" % (got, wv)))
            for kf, (t, v) in zip(jo.pos_keyframes, j["pos"]):
                wt = t / 65535.0 * dur if new else t
                wv = [c / 65535.0 * 10.0 - 5.0 for c in v] if new else v
                if not _close(kf.time, wt, dur):
                    out.append(("anim:decode:pos-time", "pos key time %r, expected %r" % (kf.time, wt)))
                got = tuple(kf.pos)
                if any(not _close(g, x, 5.0) and not (new and abs(x) < 10.0 / 65535 and g == 0.0) for g, x in zip(got, wv)):
                    out.append(("anim:decode:pos-value", "pos key %r, expected %r" % (got, wv)))
    if len(a.constraints) != len(d["constraints"]):
        out.append(("anim:decode:constraint-count", "%d constraints, wire has %d" % (len(a.constraints), len(d["constraints"]))))
    else:
        for co, c in zip(a.constraints, d["constraints"]):
            got = (co.chain_length, int(co.type), co.source_volume, tuple(co.source_offset), co.target_volume, tuple(co.target_offset),
                   tuple(co.target_dir), co.ease_in_start, co.ease_in_stop, co.ease_out_start, co.ease_out_stop)
            want = (c["chain"], c["type"], c["src"], tuple(c["src_off"]), c["tgt"], tuple(c["tgt_off"]), tuple(c["tgt_dir"]), *c["ease"])
            if got != want:
                out.append(("anim:decode:constraint", "constraint %r, wire says %r" % (got, want)))
    # serialise . parse is the identity on wire bytes, parse . serialise the identity on the decoded model
    try:
        w2 = a.to_bytes()
    except Exception as e:
        out.append(("anim:serialise-raised:%s" % type(e).__name__, "to_bytes of a parsed animation raised %r" % (e,)))
        return out
    if bytes(w2) != w:
        k = next((i for i in range(min(len(w), len(w2))) if w[i] != w2[i]), min(len(w), len(w2)))
        out.append(("anim:bytes-differ", "re-serialised bytes differ at offset %d of %d (%s vs %s)" % (k, len(w), w[k:k + 8].hex(), bytes(w2)[k:k + 8].hex())))
    try:
        a2 = Animation.from_bytes(bytes(w2))
        if a2 != a:
            out.append(("anim:model-not-fixed-point", "from_bytes(to_bytes(a)) != a"))
    except Exception as e:
        out.append(("anim:reparse-raised:%s" % type(e).__name__, "%r" % (e,)))
    return out


def classes(d):
    c = ["anim:v%d.%d" % tuple(d["ver"]), "anim:joints:%d" % min(len(d["joints"]), 3), "anim:constraints:%d" % len(d["constraints"])]
    if d["duration"] == 0.0:
        c.append("anim:duration0")
    if any(j["rot"] for j in d["joints"]):
        c.append("anim:rotkeys")
    if any(j["pos"] for j in d["joints"]):
        c.append("anim:poskeys")
    return c


def nontrivial(d):
    return any(j["rot"] or j["pos"] for j in d["joints"])
