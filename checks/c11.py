"""C11 - human-readable message text round-trips to the same datagram."""
from hypothesis import strategies as st

import hippolyzer.lib.base.serialization as se
import hippolyzer.lib.base.templates as tmpls      # noqa: F401
from hippolyzer.lib.base.datatypes import UUID
from hippolyzer.lib.base.message.message import Block
from hippolyzer.lib.base.message.message_formatting import HumanMessageSerializer
from hippolyzer.lib.base.message.udpserializer import UDPMessageSerializer
from hippolyzer.lib.base.message.udpdeserializer import UDPMessageDeserializer
from hippolyzer.lib.base.message.msgtypes import MsgType
from hippolyzer.lib.base.network.transport import Direction
from hippolyzer.lib.base.settings import Settings

from vlib import gen_template as gt
from vlib import reflect_values as rv
from vlib.runner import hyp_run
from checks.c02 import ref_datagram
from checks.c03 import expand_ref
from checks import c09

PROPERTY = "C11"
LEVEL = "exploration"
RULE = ("template-generated messages (NaN-free floats incl. +-inf, no extra header bytes, no acks) reference-encoded and DECODED FROM THE WIRE "
        "(so values have the types the proxy shows), with boosted text (>=5 newlines, >100 chars, backslashes, quotes, #, [, <, "
        "[[X]], UUID-looking, NULs, non-UTF8), plus messages built around every registered pretty-printed field with own-image "
        "payloads / member values and consistent selector siblings; printed with beautify off and on, replacement tables none / "
        "matching / non-matching; parsed back in safe mode and re-encoded.  Text-level fuzz splices eval operators into valid "
        "texts for the safe-mode clause.  Non-trivial = message with a str/bytes variable or a pretty-printed field; distinct by content.")
ASSUMPTIONS = [
    "only the message-number + blocks part of the datagram is compared (packet id, acks and extra are comments in the text), after zero-expansion",
    "floats are NaN-free as in C01 (a NaN's payload bits are not shown in the text); infinities are in the domain",
    "callables in replacement tables are called by design and are not `expressions contained in the text`",
]
FLOORS = {"quick": {"plain": 2000, "beautified": 2000, "pretty_field_cases": 800, "packed_operator_seen": 400, "multiline": 100,
                    "long_text": 100, "safe_fuzz": 1000, "replacements_used": 100, "replacements_used_zero_table": 20}}
MANIFEST = {
    "text": "Generated wire-decoded messages are printed (plain and beautified), parsed back in safe mode and re-encoded; the "
            "datagram bodies must be identical.  A second generator targets every pretty-printed subfield with payloads that "
            "really take the `=|` path.  Safe mode is attacked with spliced eval operators carrying a counting callable.",
    "note": "Sampling. The reference encoder of /verif builds the source datagrams; the repository's codec decodes and re-encodes.",
    "technique": "Hypothesis template-driven generation + text round-trip oracle on datagram bodies; text-level fuzz with side-effect counter for safe mode",
}

SER = UDPMessageSerializer()
_S = Settings()
_S.ENABLE_DEFERRED_PACKET_PARSING = False
DESER = UDPMessageDeserializer(settings=_S)

AGENT = UUID(int=0xA1)
SESSION = UUID(int=0xB2)
REPLS = {
    "none": {},
    "match": {"AGENT_ID": AGENT, "SESSION_ID": SESSION, "CIRCUIT_CODE": 1234},
    "nomatch": {"AGENT_ID": UUID(int=5), "SESSION_ID": UUID(int=6), "CIRCUIT_CODE": 99},
    # a table whose entries are all falsy values is still a table of defined replacements
    "zero": {"AGENT_ID": UUID(int=0), "SESSION_ID": UUID(int=0), "CIRCUIT_CODE": 0},
}


def _force_replaceable(case, repl_name):
    """make the fields the beautifier abbreviates carry exactly the table's values, so that [[...]] forms are really printed"""
    repl = REPLS[repl_name]
    if not repl:
        return case
    tmpl = gt.TEMPLATES[case["name"]]
    for bname, insts in case["blocks"]:
        tb = tmpl.get_block(bname)
        for d in insts:
            for v in tb.variables:
                if v.name not in d:
                    continue
                if bname == "AgentData" and v.name == "AgentID" and v.type == MsgType.MVT_LLUUID:
                    d[v.name] = repl["AGENT_ID"].hex
                elif bname == "AgentData" and v.name == "SessionID" and v.type == MsgType.MVT_LLUUID:
                    d[v.name] = repl["SESSION_ID"].hex
                elif ("CircuitCode" in v.name or ("Code" in v.name and "Circuit" in bname)) and v.type == MsgType.MVT_U32:
                    d[v.name] = repl["CIRCUIT_CODE"]
    return case

BOOST_TEXT = st.one_of(
    st.lists(st.text(st.characters(min_codepoint=0x20, max_codepoint=0x7E), max_size=20), min_size=6, max_size=9).map("\n".join),
    st.text(st.sampled_from(list("abc def\\'\"#[]<>=|$ ")), min_size=101, max_size=180),
    st.sampled_from(["[[AGENT_ID]]", "<1.0, 2.0, 3.0>", "1234-5678-90", "# not a comment", "[Block]", "x = 1", "=$ evil()", "\\",
                     "ends with backslash\\", "a\\\nb", "'", '"', "'''", "tab\there", "nul\x00mid", " lead", "trail ", "é中\U0001F600",
                     "a" * 99 + " \\", ("word " * 30).strip(),
                     # text that merely mentions an identifier, number, vector or placeholder somewhere inside
                     "rezzed by 12345678-1234-1234-1234-123456789abc today", "secondlife:///app/agent/0a1b2c3d-0000-4000-8000-0123456789ab/about",
                     "12345678-1234-1234-1234-123456789abc", "see <1, 2, 3> and [[SELECTED_LOCAL]] there", "0x10", "1e5", "None", "True", "inf"]),
)


def _boost(draw, case):
    """replace some text variables by boosted content"""
    tmpl = gt.TEMPLATES[case["name"]]
    for bname, insts in case["blocks"]:
        tb = tmpl.get_block(bname)
        for d in insts:
            for v in tb.variables:
                if v.type == MsgType.MVT_VARIABLE and v.name in d and gt.var_kind(v) != "bin" and draw(st.integers(0, 1)) == 0:
                    s = draw(BOOST_TEXT)
                    cap = (255 if v.size == 1 else 1500) - 1
                    while len(s.encode("utf8")) > cap:
                        s = s[:-1]
                    d[v.name] = s.rstrip("\x00")
    return case


def _prep(case):
    case = dict(case, extra=b"", acks=[], flags=case["flags"] & ~0x10)
    return case


def _under_cap(case):
    if case["flags"] & 0x80 and len(gt.ref_body(case)) > 0x2F00:
        # a zero-coded body beyond the decoder's 0x3000 cap is refused by design (C03); such a datagram is sent unencoded
        case = dict(case, flags=case["flags"] & ~0x80)
    return case


def classify(case, text):
    cls = []
    if "=|" in text:
        cls.append("packed_operator_seen")
    if " \\\n" in text:
        cls.append("multiline")
    if any(isinstance(v, (str, bytes)) and len(v) > 100 for _, insts in case["blocks"] for d in insts for v in d.values()):
        cls.append("long_text")
    return cls


def roundtrip_laws(ctx, case, beautify, repl_name, overrides=None):
    """overrides: {(block, index, var): raw value} applied to the decoded message before printing"""
    out = []
    case = _under_cap(case)
    dg = ref_datagram(case)
    try:
        m = DESER.deserialize(dg)
    except Exception as e:
        return [("harness:decode:%s" % type(e).__name__, "reference datagram of %s not decodable: %r" % (case["name"], e))]
    m.direction = Direction.OUT if case["pid"] % 2 else Direction.IN
    repl = REPLS[repl_name]
    try:
        text = HumanMessageSerializer.to_human_string(m, repl, beautify=beautify)
    except Exception as e:
        return [("format-raises:%s" % type(e).__name__, "%s: to_human_string(beautify=%s) raised %r" % (case["name"], beautify, e))]
    if ctx is not None:
        for c in classify(case, text):
            ctx.count(c)
        ctx.count("beautified" if beautify else "plain")
        if "[[" in text and repl_name in ("match", "zero"):
            ctx.count("replacements_used")
            if repl_name == "zero":
                ctx.count("replacements_used_zero_table")
    mode = "beautify" if beautify else "plain"
    try:
        m2 = HumanMessageSerializer.from_human_string(text, repl, safe=True)
    except Exception as e:
        return [("parse-raises:%s:%s" % (mode, type(e).__name__), "%s: parsing the %s text raised %r\n%s" % (case["name"], mode, e, text[:600]))]
    if m2.name != m.name or m2.direction != m.direction:
        out.append(("name-or-direction", "%s %s parsed back as %s %s" % (m.direction, m.name, m2.direction, m2.name)))
    if int(m2.send_flags) != int(m.send_flags):
        out.append(("flags", "flags %#x parsed back as %#x" % (int(m.send_flags), int(m2.send_flags))))
    m2.packet_id = m.packet_id
    try:
        dg2 = bytes(SER.serialize(m2))
    except Exception as e:
        return out + [("reencode-raises:%s:%s" % (mode, type(e).__name__), "%s: the message parsed from the %s text cannot be encoded: %r\n%s" % (
            case["name"], mode, e, text[:600]))]
    b1, b2 = dg[6:], dg2[6:]
    if case["flags"] & 0x80:
        b1, b2 = expand_ref(b1), expand_ref(b2)
    if b1 != b2:
        where = gt.first_diff_label(case, b2)
        out.append(("body-differs:%s:%s" % (mode, where), "%s: body re-encoded from the %s text differs at %s (len %d -> %d)\n%s" % (
            case["name"], mode, where, len(b1), len(b2), text[:500])))
    return out


# ---- pretty-printed fields ----------------------------------------------------------------------------------
def pretty_keys():
    reach, _ = c09.registry()
    return [(k, s, v) for k, s, v in reach]


@st.composite
def pretty_case(draw, keys):
    key, ser, var = draw(st.sampled_from(keys))
    m, b, vname = key
    case = draw(gt.message_case(names=[m], finite=True, with_header=False, allow_str=True, omit_trailing=False, dbl_nul=True))
    case = _prep(case)
    tmpl = gt.TEMPLATES[m]
    # make sure the block has at least one instance
    for blk in case["blocks"]:
        if blk[0] == b and not blk[1]:
            tb = tmpl.get_block(b)
            blk[1].append({v.name: draw(gt.value_strategy(v, finite=True)) for v in tb.variables})
    label, kwargs = draw(st.sampled_from(c09.context_variants(key, ser)))
    target = None
    for blk in case["blocks"]:
        if blk[0] == b:
            target = blk[1][0]
    if target is None:
        return case
    for k2, v2 in kwargs.items():
        target[k2] = int(v2)
    if var.type in c09.INT_RANGE:
        lo, hi = c09.INT_RANGE[var.type]
        adapter = getattr(ser, "_adapter", None)
        members = []
        if isinstance(adapter, se.IntEnum):
            members = [int(x) for x in adapter.enum_cls if lo <= int(x) <= hi]
        elif isinstance(adapter, se.IntFlag):
            acc = 0
            for x in adapter.flag_cls:
                acc |= int(x)
                members.append(acc & hi)
                members.append(int(x) & hi)
        if members and draw(st.booleans()):
            target[vname] = draw(st.sampled_from(members))
    else:
        block = c09.mk_block(key, kwargs)
        t = c09.template_for(ser, block)
        if t is not None and t is not se.UNSERIALIZABLE:
            try:
                val = rv.gen_value(draw, t, se.ParseContext(block))
                payload = ser.serialize(block, val)
                if payload is not se.UNSERIALIZABLE and len(payload) <= (255 if var.size == 1 else 4000):
                    target[vname] = bytes(payload)
            except rv.Unsupported:
                pass
            except Exception:
                pass
    return case


# ---- safe mode ------------------------------------------------------------------------------------------------
class Counter:
    def __init__(self):
        self.n = 0

    def __call__(self, *a, **kw):
        self.n += 1
        return 1


def safe_mode_laws(ctx, case, splice):
    dg = ref_datagram(case)
    try:
        m = DESER.deserialize(dg)
    except Exception:
        return []
    m.direction = Direction.OUT
    text = str(HumanMessageSerializer.to_human_string(m, {}, beautify=False))
    lines = text.split("\n")
    var_lines = [i for i, l in enumerate(lines) if "=" in l and not l.strip().startswith(("#", "["))]
    if not var_lines:
        return []
    i = var_lines[splice["line"] % len(var_lines)]
    name = lines[i].split("=")[0].strip()
    op, expr = splice["op"], splice["expr"]
    lines[i] = "  %s %s %s" % (name, op, expr)
    evil = "\n".join(lines)
    counter = Counter()
    out = []
    if ctx is not None:
        ctx.count("safe_fuzz")
    try:
        HumanMessageSerializer.from_human_string(evil, replacements={}, env={"PWNED": counter}, safe=True)
    except Exception:
        pass
    if counter.n:
        out.append(("safe-mode:evaluated:%s" % op.replace(" ", ""), "safe mode evaluated an expression from the text (operator %r, %r)" % (op, expr)))
    # and through the builtins reachable without env
    import builtins
    marker = "_verif_c11_marker"
    if hasattr(builtins, marker):
        delattr(builtins, marker)
    lines[i] = "  %s %s %s" % (name, op, "setattr(__import__('builtins'), %r, 1)" % marker)
    try:
        HumanMessageSerializer.from_human_string("\n".join(lines), safe=True)
    except Exception:
        pass
    if hasattr(builtins, marker):
        delattr(builtins, marker)
        out.append(("safe-mode:evaluated-builtin:%s" % op.replace(" ", ""), "safe mode executed code from the text (operator %r)" % op))
    return out


SPLICE = st.fixed_dictionaries({
    "line": st.integers(0, 50),
    "op": st.sampled_from(["=$", "=|$", "=$|", "= $", "=|", "=", "=||", "=$$", " =$ ", "=|  $"]),
    "expr": st.sampled_from(["PWNED()", "[PWNED()]", "(PWNED(),)", "{'a': PWNED()}", "PWNED() \\\n  + 1", "block and PWNED()",
                             "(1, \\\n  PWNED())", "'x' if PWNED() else 'y'", "__import__('os').getpid() and PWNED()"]),
})


# ---- shards ---------------------------------------------------------------------------------------------------
def shards(tier):
    th = tier == "thorough"
    sh = []
    if th:
        names = gt.ALL_NAMES
        for i in range(0, len(names), 31):
            sh.append({"kind": "msgs", "names": names[i:i + 31], "n": 31 * 50})
    else:
        for i in range(8):
            sh.append({"kind": "msgs", "names": None, "n": 450})
    # messages whose fields the beautifier abbreviates through the replacement table
    sh.append({"kind": "msgs", "names": ["UseCircuitCode", "AddCircuitCode", "CompleteAgentMovement", "AgentUpdate", "ChatFromViewer"],
               "n": 3000 if th else 300})
    keys = pretty_keys()
    per = max(1, len(keys) // 6)
    for i in range(0, len(keys), per):
        sh.append({"kind": "pretty", "lo": i, "hi": i + per, "n": 3000 if th else 170})
    sh.append({"kind": "pretty", "lo": 0, "hi": 0, "n": 2500 if th else 220,
               "only": [["ObjectUpdateCompressed", "ObjectData", "Data"], ["ObjectUpdate", "ObjectData", "ObjectData"],
                        ["ImprovedTerseObjectUpdate", "ObjectData", "Data"]]})
    sh.append({"kind": "safe", "n": 40000 if th else 1100})
    return sh


def run_shard(ctx, shard):
    if shard["kind"] == "msgs":
        @st.composite
        def strat(draw):
            case = draw(gt.message_case(names=shard["names"], finite=False, with_header=True, omit_trailing=True))
            case = _boost(draw, _prep(case))
            repl = draw(st.sampled_from(["none", "match", "nomatch", "zero"]))
            if repl in ("match", "zero") and draw(st.booleans()):
                case = _force_replaceable(case, repl)
            return {"case": case, "beautify": draw(st.booleans()), "repl": repl}

        def body(c):
            case = c["case"]
            nt = any(isinstance(v, (str, bytes)) and len(v) for _, insts in case["blocks"] for d in insts for v in d.values())
            ctx.case(c, nontrivial=nt, classes=[])
            res = roundtrip_laws(ctx, case, c["beautify"], c["repl"])
            res += roundtrip_laws(ctx, case, not c["beautify"], c["repl"])
            return res
        hyp_run(ctx, strat(), body, shard["n"])
    elif shard["kind"] == "pretty":
        keys = pretty_keys()[shard["lo"]:shard["hi"]]
        if shard.get("only"):
            # sub-structures that nest further lazily decoded sections: their pretty form prints what is nested inside
            keys = [k for k in pretty_keys() if k[0] in [tuple(x) for x in shard["only"]]]
        if not keys:
            return

        @st.composite
        def strat(draw):
            return {"case": draw(pretty_case(keys)), "repl": draw(st.sampled_from(["none", "match"]))}

        def body(c):
            ctx.case(c, nontrivial=True, classes=["pretty_field_cases"])
            return roundtrip_laws(ctx, c["case"], True, c["repl"]) + roundtrip_laws(ctx, c["case"], False, c["repl"])
        hyp_run(ctx, strat(), body, shard["n"])
    else:
        strat = st.tuples(gt.message_case(finite=False, with_header=False, omit_trailing=False).map(_prep), SPLICE)

        def body(c):
            ctx.case(c, nontrivial=True, classes=[])
            return safe_mode_laws(ctx, c[0], c[1])
        hyp_run(ctx, strat, body, shard["n"])


def replay(ctx, case):
    if isinstance(case, (tuple, list)) and len(case) == 2 and isinstance(case[1], dict) and "op" in case[1]:
        return safe_mode_laws(None, case[0], case[1])
    res = roundtrip_laws(None, case["case"], True, case.get("repl", "none"))
    res += roundtrip_laws(None, case["case"], False, case.get("repl", "none"))
    return res
