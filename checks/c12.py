"""C12 - LLSD forms are faithful: messages over LLSD and the LLSD codecs round-trip."""
import datetime as dt
import os
import struct
import time
import uuid

from hypothesis import strategies as st

from hippolyzer.lib.base import llsd
from hippolyzer.lib.base.datatypes import UUID, Vector2, Vector3, Vector4, Quaternion, TupleCoord, JankStringyBytes, RawBytes
from hippolyzer.lib.base.message.udpdeserializer import UDPMessageDeserializer
from hippolyzer.lib.base.message.udpserializer import UDPMessageSerializer
from hippolyzer.lib.base.message.llsd_msg_serializer import LLSDMessageSerializer

from vlib import gen_template as gt
from vlib.runner import hyp_run

T = gt.T
PROPERTY = "C12"
LEVEL = "exploration"
RULE = ("(A) template-generated messages restricted to what LLSD can carry (XML-legal text without CR, finite floats), every "
        "template name in the thorough tier: message -> LLSD dict -> message and message -> LLSD XML -> message, compared by "
        "value at the template's types, the dict form converted twice, the same message as decoded from its datagram (byte fields "
        "are then the library's own bytes flavours) through both forms, plus EventQueueManager.inject_message queues exactly that "
        "dict; (B) generated LLSD trees "
        "(depth <= 4): undef, bool, S32, finite reals incl. -0.0, strings (newlines, quotes, backslashes, non-BMP), binary (plain and the library's bytes subclasses), uri, "
        "UUID, datetimes (aware UTC, aware offset, naive; microseconds), dates, lists/tuples, maps, Vector2/3/4, Quaternion -> "
        "binary with/without header, zipped, notation, XML (control), under three process time zones.  Non-trivial = message with a "
        "variable / tree with a container or date/uri/uuid leaf; distinct by content.")
ASSUMPTIONS = [
    "text in messages is XML-legal and contains no carriage return (XML parsers normalise CR; that is outside the repository)",
    "naive datetimes denote UTC wall time (the convention of the XML/notation forms); dates are compared as instants at microsecond "
    "resolution; the XML codec and most of the notation codec come from the third-party llsd package",
    "vector types come back as lists, tuples as lists (LLSD has only arrays)",
]
FLOORS = {"quick": {"msg_cases": 1500, "tree_cases": 3000, "leaf:uri": 300, "leaf:datetime": 500, "leaf:uuid": 300, "leaf:binary": 300,
                    "leaf:coord": 200, "tz_runs": 3, "quaternion_msgs": 10}}
MANIFEST = {
    "text": "Generated messages and LLSD trees pushed through every LLSD form the repository implements or overrides, compared by "
            "value AND LLSD type (uri stays uri, binary stays binary, int stays int), dates by instant under UTC and two "
            "DST-observing process time zones, and notation output scanned for raw newlines.",
    "note": "Sampling; the XML and most of the notation codec belong to the third-party llsd package and serve as control.",
    "technique": "Hypothesis generation of messages (template-driven) and recursive LLSD trees; round-trip oracles with type-aware comparison; TZ as configuration axis",
}

LSER = LLSDMessageSerializer()
_UDP_SER = UDPMessageSerializer()
_UDP_DESER = UDPMessageDeserializer()


# ---- part A ---------------------------------------------------------------------------------------------
def _strip_cr(case):
    for _, insts in case["blocks"]:
        for d in insts:
            for k, v in list(d.items()):
                if isinstance(v, str) and "\r" in v:
                    d[k] = v.replace("\r", " ")
    return case


def msg_value_equal(var, exp, got):
    """value equality of a variable after a trip through LLSD (in-memory types, not wire-decoded types)"""
    t = var.type
    if t in gt.INT_RANGES or t == T.MVT_BOOL:
        return isinstance(got, (int, bool)) and int(got) == int(exp)
    if t in (T.MVT_F32, T.MVT_F64):
        return isinstance(got, float) and struct.pack("<d", got) == struct.pack("<d", float(exp))
    if t in (T.MVT_LLVector3, T.MVT_LLVector3d, T.MVT_LLVector4):
        return isinstance(got, TupleCoord) and [struct.pack("<d", x) for x in tuple(got)] == [struct.pack("<d", float(x)) for x in exp]
    if t == T.MVT_LLQuaternion:
        ref = Quaternion(*exp)
        return isinstance(got, Quaternion) and [struct.pack("<d", x) for x in tuple(got)] == [struct.pack("<d", x) for x in tuple(ref)]
    if t == T.MVT_LLUUID:
        return isinstance(got, uuid.UUID) and got.hex == exp
    if t == T.MVT_IP_ADDR:
        return got == exp
    if isinstance(exp, str):
        return isinstance(got, str) and got == exp
    return isinstance(got, bytes) and bytes(got) == bytes(exp)


def compare_msg(case, m2):
    tmpl = gt.TEMPLATES[case["name"]]
    out = []
    if m2.name != case["name"]:
        return [("name", "name")]
    want = [b for b, _ in case["blocks"]]
    if list(m2.blocks.keys()) != want:
        return [("blocks", "block lists %r != %r" % (list(m2.blocks.keys()), want))]
    for bname, insts in case["blocks"]:
        tb = tmpl.get_block(bname)
        got = m2.blocks[bname]
        if len(got) != len(insts):
            out.append((bname, "count %d != %d" % (len(got), len(insts))))
            continue
        for i, d in enumerate(insts):
            for v in tb.variables:
                if v.name not in got[i].vars:
                    out.append(("%s.%s:%s" % (bname, v.name, v.type.name), "missing"))
                elif not msg_value_equal(v, d[v.name], got[i].vars[v.name]):
                    out.append(("%s.%s:%s" % (bname, v.name, v.type.name), "%r != %r" % (got[i].vars[v.name], d[v.name])))
    return out


def msg_laws(case):
    out = []
    try:
        m = gt.build(case)
    except Exception as e:
        return [("A:build:%s" % type(e).__name__, repr(e))]
    for form in ("dict", "xml"):
        try:
            ser = LSER.serialize(m, as_dict=(form == "dict"))
        except Exception as e:
            kinds = sorted({v.type.name for b in gt.TEMPLATES[case["name"]].blocks for v in b.variables if v.type in (T.MVT_LLQuaternion,)})
            out.append(("A:%s:serialize-raises:%s%s" % (form, type(e).__name__, (":" + kinds[0]) if kinds else ""),
                        "%s: serialize(%s) raised %r" % (case["name"], form, e)))
            continue
        if form == "dict":
            # converting is reading: the message is what it was, a second conversion gives the same form
            try:
                again = LSER.serialize(m, as_dict=True)
                if repr(again) != repr(ser):
                    out.append(("A:dict:serialize-twice", "%s: a second serialize() of the same message gives a different LLSD form" % case["name"]))
            except Exception as e:
                out.append(("A:dict:serialize-twice:raises", "%s: a second serialize() of the same message raised %r" % (case["name"], e)))
        try:
            m2 = LSER.deserialize(ser)
        except Exception as e:
            out.append(("A:%s:deserialize-raises:%s" % (form, type(e).__name__), "%s: deserialize raised %r" % (case["name"], e)))
            continue
        for loc, why in compare_msg(case, m2)[:3]:
            out.append(("A:%s:value:%s" % (form, loc.split(":")[-1] if ":" in loc else "structure"), "%s %s: %s" % (case["name"], loc, why)))
        if form == "dict" and not (m2 == m):
            if not out:
                out.append(("A:dict:message-eq", "%s: Message.__eq__ says the round-tripped message differs" % case["name"]))
        if form == "dict" and not out:
            # the LLSD form is a value: converting the same form a second time gives the original again
            try:
                m3 = LSER.deserialize(ser)
                for loc, why in compare_msg(case, m3)[:2]:
                    out.append(("A:dict:second-conversion:value", "%s %s: %s (second deserialize of the same form)" % (case["name"], loc, why)))
            except Exception as e:
                out.append(("A:dict:second-conversion:raises", "%s: deserializing the same LLSD form a second time raised %r" % (case["name"], e)))
    out.extend(wire_decoded_laws(case, m))
    return out


def wire_decoded_laws(case, m):
    """the same message as the proxy holds it - decoded from its datagram, so that byte fields are the library's own bytes flavours"""
    out = []
    try:
        mw = _UDP_DESER.deserialize(bytes(_UDP_SER.serialize(m)))
        mw.ensure_parsed()
    except Exception:
        return out      # not a statement about LLSD (C01's business)
    tmpl = gt.TEMPLATES[case["name"]]
    for form in ("dict", "xml"):
        try:
            m2 = LSER.deserialize(LSER.serialize(mw, as_dict=(form == "dict")))
        except Exception as e:
            out.append(("A:%s:wire-decoded:raises:%s" % (form, type(e).__name__), "%s decoded from the wire: LLSD %s round trip raised %r" % (case["name"], form, e)))
            continue
        for bname, insts in case["blocks"]:
            tb = tmpl.get_block(bname)
            got = m2.blocks.get(bname, [])
            src = mw.blocks.get(bname, [])
            if len(got) != len(src):
                out.append(("A:%s:wire-decoded:structure" % form, "%s.%s: %d blocks became %d" % (case["name"], bname, len(src), len(got))))
                continue
            for i, blk in enumerate(src):
                for v in tb.variables:
                    a, b = blk.vars.get(v.name), got[i].vars.get(v.name)
                    if isinstance(a, (bytes, bytearray)):
                        ok = isinstance(b, bytes) and bytes(a) == bytes(b)
                    elif isinstance(a, str):
                        if form == "xml" and any(ord(c) < 0x20 and c not in "\t\n" for c in a):
                            continue    # text XML cannot carry (the property's domain is XML-legal text)
                        ok = isinstance(b, str) and a == b
                    else:
                        continue        # every other kind is compared by msg_laws on the built message
                    if not ok:
                        out.append(("A:%s:wire-decoded:value:%s" % (form, "bytes" if isinstance(a, (bytes, bytearray)) else "text"),
                                    "%s.%s.%s decoded from the wire as %r comes back from LLSD %s as %r" % (case["name"], bname, v.name, a, form, b)))
                        break
    return out[:4]


def inject_law(case):
    """EventQueueManager.inject_message queues exactly serialize(m, as_dict=True)"""
    from hippolyzer.lib.proxy.region import EventQueueManager
    import types
    import weakref

    class FakeRegion:
        circuit = types.SimpleNamespace(send=lambda m: None)

        def session(self):
            return types.SimpleNamespace(agent_id=UUID(int=1), id=UUID(int=2))
    region = FakeRegion()
    try:
        m = gt.build(case)
        want = LSER.serialize(m, as_dict=True)
    except Exception:
        return []
    eq = EventQueueManager.__new__(EventQueueManager)
    eq._queued_events = []
    eq._region = None
    eq._last_ack = None
    eq._last_payload = None
    eq.llsd_message_serializer = LLSDMessageSerializer()
    try:
        eq.inject_message(m)
        got = eq.take_injected_events()
    except Exception as e:
        return [("A:inject:raises:%s" % type(e).__name__, "inject_message raised %r" % (e,))]
    if len(got) != 1 or repr(got[0]) != repr(want):
        return [("A:inject:queued-event", "inject_message queued %r, expected the LLSD form of the message" % (got,))]
    if eq.take_injected_events():
        return [("A:inject:not-cleared", "injected events are handed out twice")]
    return []


# ---- part B ---------------------------------------------------------------------------------------------
UTC = dt.timezone.utc
TEXT = st.text(st.one_of(st.characters(min_codepoint=0x20, max_codepoint=0x7E), st.sampled_from(list("\n\n\\'\"\t é中\U0001F600")),
                         st.characters(blacklist_categories=("Cs", "Cc"))), max_size=12)
DATETIMES = st.one_of(st.datetimes(min_value=dt.datetime(1970, 1, 2), max_value=dt.datetime(2100, 1, 1)),
                      st.datetimes(min_value=dt.datetime(1902, 1, 1), max_value=dt.datetime(1969, 12, 31, 23, 59, 59, 999999)))  # before the epoch: negative, fractional timestamps


def leaf(binary_only_dates=False):
    opts = [
        st.none(), st.booleans(), st.integers(-2 ** 31, 2 ** 31 - 1),
        st.floats(allow_nan=False, allow_infinity=False), st.sampled_from([0.0, -0.0, 1.5]),
        TEXT, st.sampled_from(["\\n", "a\\\nb", "\\", "'", "it's", "line1\nline2\n", "\ufeffbom first", "\ufeff", "a\ufeffb", "Object\x00", "a\x00b", "\x00"]),
        st.binary(max_size=10).map(lambda b: ("binary", b)),
        # the flavours of bytes the library itself hands out (message fields of unknown nature, raw blobs): binary values like any other
        st.tuples(st.sampled_from(["jank", "rawbytes"]),
                  st.one_of(st.binary(max_size=10), st.sampled_from([b"text\x00", b"caf\xc3\xa9", b"\xff\xfe", b"a\x00b\x00", b"\x01\x02\n"]))),
        st.text(st.characters(min_codepoint=0x21, max_codepoint=0x7E, blacklist_characters="'\"\\<>&"), max_size=12).map(lambda s: ("uri", "http://x/" + s)),
        st.sampled_from([("uri", "http://ex.am/é中"), ("uri", "\ufeffhttp://bom.first/")]),
        st.integers(0, 2 ** 128 - 1).map(lambda i: ("uuid", i)), st.integers(0, 2 ** 128 - 1).map(lambda i: ("stduuid", i)),
        DATETIMES.map(lambda d: ("naive", d.isoformat())),
        DATETIMES.map(lambda d: ("utc", d.isoformat())),
        st.dates(min_value=dt.date(1970, 1, 2), max_value=dt.date(2100, 1, 1)).map(lambda d: ("date", d.isoformat())),
        st.tuples(st.sampled_from(["v2", "v3", "v4", "quat"]), st.lists(st.floats(width=32, allow_nan=False, allow_infinity=False), min_size=4, max_size=4)).map(
            lambda t: (t[0], t[1])),
    ]
    if binary_only_dates:
        opts.append(st.tuples(DATETIMES, st.sampled_from([330, -420, 60, 765])).map(lambda t: ("offset", t[0].isoformat(), t[1])))
    return st.one_of(*opts)


# map keys are text like any other: non-ASCII (multi-byte in UTF-8), blanks, quotes and XML metacharacters included
KEYS = st.one_of(st.text(st.characters(min_codepoint=0x21, max_codepoint=0x7E), max_size=6),
                 st.text(st.one_of(st.characters(min_codepoint=0x20, max_codepoint=0x7E), st.sampled_from(list("é中\U0001F600ß"))), min_size=1, max_size=5),
                 st.sampled_from(["é", "中文", "k\U0001F600", "a b", "<k>", "q'\"", "ключ", "\ufeffkey"]))


def tree(binary_only_dates=False):
    return st.recursive(leaf(binary_only_dates), lambda ch: st.one_of(
        st.lists(ch, max_size=4), st.lists(ch, max_size=3).map(lambda l: ("tuple", l)),
        st.dictionaries(KEYS, ch, max_size=4)), max_leaves=12)


def build_tree(t):
    """plain description -> LLSD python value"""
    if isinstance(t, tuple) and t and isinstance(t[0], str):
        k = t[0]
        if k == "binary":
            return llsd.binary(t[1])
        if k == "jank":
            return JankStringyBytes(t[1])
        if k == "rawbytes":
            return RawBytes(t[1])
        if k == "bytearray":
            return bytearray(t[1])
        if k == "uri":
            return llsd.uri(t[1])
        if k == "uuid":
            return UUID(int=t[1])
        if k == "stduuid":
            return uuid.UUID(int=t[1])
        if k == "naive":
            return dt.datetime.fromisoformat(t[1])
        if k == "utc":
            return dt.datetime.fromisoformat(t[1]).replace(tzinfo=UTC)
        if k == "offset":
            return dt.datetime.fromisoformat(t[1]).replace(tzinfo=dt.timezone(dt.timedelta(minutes=t[2])))
        if k == "date":
            return dt.date.fromisoformat(t[1])
        if k == "tuple":
            return tuple(build_tree(x) for x in t[1])
        if k == "v2":
            return Vector2(*t[1][:2])
        if k == "v3":
            return Vector3(*t[1][:3])
        if k == "v4":
            return Vector4(*t[1][:4])
        if k == "quat":
            return Quaternion(*t[1][:4])
    if isinstance(t, list):
        return [build_tree(x) for x in t]
    if isinstance(t, dict):
        return {k: build_tree(v) for k, v in t.items()}
    return t


def norm_expected(v):
    """(type tag, value) normal form of what must come back"""
    if v is None:
        return ("undef",)
    if isinstance(v, bool):
        return ("bool", v)
    if isinstance(v, int):
        return ("int", v)
    if isinstance(v, float):
        return ("real", struct.pack("<d", v))
    if isinstance(v, llsd.uri):
        return ("uri", str(v))
    if isinstance(v, str):
        return ("string", v)
    if isinstance(v, uuid.UUID):
        return ("uuid", v.hex)
    if isinstance(v, (bytes, bytearray)):
        return ("binary", bytes(v))
    if isinstance(v, dt.datetime):
        if v.tzinfo is None:
            v = v.replace(tzinfo=UTC)
        epoch = dt.datetime(1970, 1, 1, tzinfo=UTC)
        return ("date", (v - epoch) // dt.timedelta(microseconds=1))
    if isinstance(v, dt.date):
        epoch = dt.datetime(1970, 1, 1, tzinfo=UTC)
        return ("date", (dt.datetime(v.year, v.month, v.day, tzinfo=UTC) - epoch) // dt.timedelta(microseconds=1))
    if isinstance(v, TupleCoord):
        return ("array", [norm_expected(float(x)) for x in v.data()])
    if isinstance(v, (list, tuple)):
        return ("array", [norm_expected(x) for x in v])
    if isinstance(v, dict):
        return ("map", {k: norm_expected(x) for k, x in v.items()})
    return ("?", repr(v))


def _close(a, b):
    """normal forms equal, dates within 1 microsecond (binary dates travel as float64 seconds)"""
    if a[0] != b[0]:
        return False
    if a[0] == "date":
        return abs(a[1] - b[1]) <= 1
    if a[0] == "array":
        return len(a[1]) == len(b[1]) and all(_close(x, y) for x, y in zip(a[1], b[1]))
    if a[0] == "map":
        return a[1].keys() == b[1].keys() and all(_close(a[1][k], b[1][k]) for k in a[1])
    return a == b


def _first_diff(a, b, path="$"):
    if a[0] != b[0]:
        return "%s: LLSD type %s became %s" % (path, a[0], b[0]), "type:%s->%s" % (a[0], b[0])
    if a[0] == "array":
        if len(a[1]) != len(b[1]):
            return "%s: array length" % path, "array-length"
        for i, (x, y) in enumerate(zip(a[1], b[1])):
            if not _close(x, y):
                return _first_diff(x, y, "%s[%d]" % (path, i))
    if a[0] == "map":
        if a[1].keys() != b[1].keys():
            return "%s: map keys" % path, "map-keys"
        for k in a[1]:
            if not _close(a[1][k], b[1][k]):
                return _first_diff(a[1][k], b[1][k], "%s.%s" % (path, k))
    return "%s: %s %r became %r" % (path, a[0], a[1], b[1]), "value:%s" % a[0]


def _xml_illegal(v):
    if isinstance(v, str):
        return any(c in "\ufffe\uffff" or (ord(c) < 0x20 and c not in "\t\n\r") for c in v)
    if isinstance(v, (list, tuple)):
        return any(_xml_illegal(x) for x in v)
    if isinstance(v, dict):
        return any(_xml_illegal(k) or _xml_illegal(x) for k, x in v.items())
    return False


def tree_laws(desc, forms):
    v = build_tree(desc)
    want = norm_expected(v)
    out = []
    codecs = {
        "binary": (lambda x: llsd.format_binary(x, with_header=False), llsd.parse_binary),
        "binary+header": (lambda x: llsd.format_binary(x, with_header=True), llsd.parse_binary),
        "zip": (llsd.zip_llsd, llsd.unzip_llsd),
        "notation": (llsd.format_notation, llsd.parse_notation),
        "xml": (llsd.format_xml, llsd.parse_xml),
        "sniff-binary": (lambda x: llsd.format_binary(x, with_header=True), llsd.parse),
    }
    for form in forms:
        enc, dec = codecs[form]
        if form == "xml" and _xml_illegal(v):
            continue        # U+FFFE / U+FFFF are not XML characters: outside what the XML form can carry
        try:
            data = enc(v)
        except Exception as e:
            out.append(("B:%s:format-raises:%s" % (form, type(e).__name__), "%s: format raised %r" % (form, e)))
            continue
        if form == "notation" and b"\n" in data:
            out.append(("B:notation:raw-newline", "notation output contains a raw newline: %r" % data[:80]))
        try:
            back = dec(data)
        except Exception as e:
            out.append(("B:%s:parse-raises:%s" % (form, type(e).__name__), "%s: parse of own output raised %r (%r)" % (form, e, data[:60])))
            continue
        got = norm_expected(back)
        if not _close(want, got):
            msg, kind = _first_diff(want, got)
            out.append(("B:%s:%s" % (form, kind), "%s: %s" % (form, msg)))
        elif isinstance(back, (list, dict)):
            # parsing is a function of the bytes: what a caller does to one result does not show in the next
            try:
                if isinstance(back, list):
                    back.append("edited by the caller")
                else:
                    back["edited by the caller"] = 1
                if not _close(want, norm_expected(dec(data))):
                    out.append(("B:%s:second-parse-differs" % form, "%s: parsing the same bytes again after the first result was edited gives another value" % form))
            except Exception as e:
                out.append(("B:%s:second-parse-raises" % form, "%s: %r" % (form, e)))
    return out


def has_offset(desc):
    if isinstance(desc, tuple) and desc and desc[0] == "offset":
        return True
    if isinstance(desc, tuple) and desc and desc[0] == "tuple":
        return any(has_offset(x) for x in desc[1])
    if isinstance(desc, list):
        return any(has_offset(x) for x in desc)
    if isinstance(desc, dict):
        return any(has_offset(x) for x in desc.values())
    return False


def leaf_classes(desc, acc):
    if isinstance(desc, tuple) and desc and isinstance(desc[0], str):
        k = desc[0]
        if k in ("naive", "utc", "offset", "date"):
            acc.add("leaf:datetime")
        elif k in ("uuid", "stduuid"):
            acc.add("leaf:uuid")
        elif k in ("v2", "v3", "v4", "quat"):
            acc.add("leaf:coord")
        elif k == "tuple":
            for x in desc[1]:
                leaf_classes(x, acc)
            acc.add("container")
        elif k in ("jank", "rawbytes", "bytearray"):
            acc.add("leaf:binary")
            acc.add("leaf:library-bytes")
        else:
            acc.add("leaf:" + k)
    elif isinstance(desc, list):
        acc.add("container")
        for x in desc:
            leaf_classes(x, acc)
    elif isinstance(desc, dict):
        acc.add("container")
        for x in desc.values():
            leaf_classes(x, acc)
    return acc


# ---- shards ---------------------------------------------------------------------------------------------
def shards(tier):
    th = tier == "thorough"
    sh = []
    if th:
        names = gt.ALL_NAMES
        for i in range(0, len(names), 31):
            sh.append({"kind": "msgs", "names": names[i:i + 31], "n": 31 * 60})
    else:
        for i in range(6):
            sh.append({"kind": "msgs", "names": None, "n": 350})
    # one converter object serves every message of a connection: message types that share a number (in different frequency classes)
    # one after the other through the same object
    sh.append({"kind": "same_number", "n": 1500 if th else 160})
    sh.append({"kind": "same_number", "n": 1500 if th else 160})
    quat = [n for n in gt.ALL_NAMES if any(v.type == T.MVT_LLQuaternion for b in gt.TEMPLATES[n].blocks for v in b.variables)]
    sh.append({"kind": "msgs", "names": quat, "n": 400 if th else 60})
    for tz in ("UTC", "America/New_York", "Australia/Lord_Howe"):
        for i in range(4 if th else 2):
            sh.append({"kind": "trees", "tz": tz, "n": 17000 if th else 700})
    return sh


def _same_number_groups():
    groups = {}
    for n in gt.ALL_NAMES:
        groups.setdefault(getattr(gt.TEMPLATES[n], "num", None), []).append(n)
    return [sorted(v) for k, v in sorted(groups.items(), key=lambda kv: str(kv[0])) if len(v) > 1]


def same_number_laws(pair_case):
    global LSER
    saved = LSER
    LSER = LLSDMessageSerializer()      # a converter that has seen nothing yet, then the two messages in this order
    try:
        out = []
        for c in pair_case["cases"]:
            out.extend(msg_laws(_strip_cr(c)))
        return [("same-number:" + s, m) for s, m in out]
    finally:
        LSER = saved


def run_shard(ctx, shard):
    if shard["kind"] == "same_number":
        groups = _same_number_groups()

        @st.composite
        def strat(draw):
            g = draw(st.sampled_from(groups))
            a, b = draw(st.permutations(g))[:2]
            return {"same_number": [a, b], "cases": [draw(gt.message_case(names=[n], finite=True, xml_safe=True, with_header=False, omit_trailing=False))
                                                       for n in (a, b)]}

        def body(pc):
            ctx.case(pc, nontrivial=True, classes=["same_number_pairs"])
            return same_number_laws(pc)
        hyp_run(ctx, strat(), body, shard["n"])
        return
    if shard["kind"] == "msgs":
        strat = gt.message_case(names=shard["names"], finite=True, xml_safe=True, with_header=False, omit_trailing=False)

        def body(case):
            case = _strip_cr(case)
            cls = ["msg_cases"]
            if any(v.type == T.MVT_LLQuaternion for b in gt.TEMPLATES[case["name"]].blocks for v in b.variables):
                cls.append("quaternion_msgs")
            ctx.case(case, nontrivial=gt.is_nontrivial(case), classes=cls)
            return msg_laws(case) + inject_law(case)
        hyp_run(ctx, strat, body, shard["n"])
    else:
        os.environ["TZ"] = shard["tz"]
        time.tzset()
        ctx.count("tz_runs")

        def body(desc):
            cls = leaf_classes(desc, set())
            ctx.case((shard["tz"], desc), nontrivial=bool(cls & {"container", "leaf:datetime", "leaf:uri", "leaf:uuid"}),
                     classes=sorted(cls) + ["tree_cases"])
            forms = ["binary", "binary+header", "zip", "sniff-binary", "notation", "xml"]
            res = tree_laws(desc, forms)
            return [(s + (":TZ!=UTC" if shard["tz"] != "UTC" and "date" in s else ""), m + " [TZ=%s]" % shard["tz"]) for s, m in res]
        hyp_run(ctx, tree(binary_only_dates=True), body, shard["n"])


def replay(ctx, case):
    if isinstance(case, dict) and "same_number" in case:
        return same_number_laws(case)
    if isinstance(case, dict) and "blocks" in case:
        return msg_laws(_strip_cr(case)) + inject_law(case)
    res = []
    for tz in ("UTC", "America/New_York"):
        os.environ["TZ"] = tz
        time.tzset()
        forms = ["binary", "binary+header", "zip", "sniff-binary", "notation", "xml"]
        res += [(s + (":TZ!=UTC" if tz != "UTC" and "date" in s else ""), m) for s, m in tree_laws(case, forms)]
    return res
