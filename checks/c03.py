"""C03 - zero-coding is a lossless, bounded, canonical run-length code."""
import itertools
import tracemalloc

from hypothesis import strategies as st

from hippolyzer.lib.base.message.udpserializer import UDPMessageSerializer
from hippolyzer.lib.base.message.udpdeserializer import UDPMessageDeserializer
from hippolyzer.lib.base.message.template_dict import DEFAULT_TEMPLATE_DICT
from hippolyzer.lib.base.settings import Settings

from vlib.runner import hyp_run

PROPERTY = "C03"
LEVEL = "exploration"
RULE = ("encoder side: strings over {00,01,FF} enumerated exhaustively to a length bound, every zero-run length "
        "0..1100 in 9 left/right contexts, Hypothesis run-heavy byte strings up to 0x3000; decoder side: "
        "exhaustive strings over {00,01,02,FF} to a length bound plus generated token streams (literals, "
        "00 n, wrap chains 00 00.. n, trailing 00) differential against an independent reference decoder, "
        "incl. over-cap inputs; header peek on zero-coded datagrams.  Non-trivial = input contains a run of "
        ">=2 zeros / a wrap chain / a trailing zero (encoder) or a 00 token (decoder); distinct by content.")
ASSUMPTIONS = [
    "reference decoder in /verif written from the format description: 00 followed by k further 00 and a count "
    "byte n yields 256k+n zeros; at end of input 00 (00)^k yields 1+256k zeros",
    "cap oracle: reference length <= 0x3000 must decode; > 0x3000+256 must raise ValueError; in between either "
    "(the implementation checks the cap once per input byte, a byte expands to at most 256)",
]
EXHAUSTIVE = {"quick": False, "thorough": False}
EXHAUSTIVE_PARTS = {
    "quick": ["enc: {00,01,FF}^<=12", "enc: run lengths 0..1100 x 9 contexts", "dec: {00,01,02,FF}^<=9"],
    "thorough": ["enc: {00,01,FF}^<=13", "enc: run lengths 0..1100 x 9 contexts", "dec: {00,01,02,FF}^<=11"],
}
FLOORS = {"quick": {"enc_nontrivial": 1000, "dec_wrap": 300, "dec_overcap": 50, "peek": 300},
          "thorough": {"enc_nontrivial": 1000, "dec_wrap": 300, "dec_overcap": 50, "peek": 300}}

CAP = 0x3000
compress = UDPMessageSerializer.zero_code_compress
expand = UDPMessageDeserializer.zero_code_expand


# ---- independent reference model ---------------------------------------------------------------
def expand_ref_len(x: bytes) -> int:
    total = 0
    i, n = 0, len(x)
    while i < n:
        b = x[i]
        i += 1
        if b:
            total += 1
            continue
        k = 0
        while i < n and x[i] == 0:
            k += 1
            i += 1
        if i < n:
            total += 256 * k + x[i]
            i += 1
        else:
            total += 1 + 256 * k
    return total


def expand_ref(x: bytes) -> bytes:
    out = bytearray()
    i, n = 0, len(x)
    while i < n:
        b = x[i]
        i += 1
        if b:
            out.append(b)
            continue
        k = 0
        while i < n and x[i] == 0:
            k += 1
            i += 1
        if i < n:
            out.extend(bytes(256 * k + x[i]))
            i += 1
        else:
            out.extend(bytes(1 + 256 * k))
    return bytes(out)


def canonical(enc: bytes):
    """every 00 is immediately followed by a count 1..255 (so no wrap form, no dangling 00)"""
    i, n = 0, len(enc)
    while i < n:
        if enc[i] == 0:
            if i + 1 >= n or enc[i + 1] == 0:
                return False
            i += 2
        else:
            i += 1
    return True


# ---- oracles -----------------------------------------------------------------------------------
def enc_laws(s: bytes):
    out = []
    try:
        c = bytes(compress(s))
    except Exception as e:
        return [("enc:raises:%s" % type(e).__name__, "compress(%r...) raised %r" % (s[:20], e))]
    if not canonical(c):
        out.append(("enc:not-canonical", "compress output has a 00 not followed by a count 1..255: %r" % c[:60]))
    if expand_ref(c) != s:
        out.append(("enc:ref-decode-mismatch", "reference decode of compress(s) != s (len %d)" % len(s)))
    if len(s) <= CAP:
        try:
            d = bytes(expand(c))
            if d != s:
                out.append(("enc:roundtrip", "expand(compress(s)) != s (len %d)" % len(s)))
        except Exception as e:
            out.append(("enc:roundtrip-raises:%s" % type(e).__name__, "expand(compress(s)) raised %r" % (e,)))
    if len(c) > 2 * len(s):
        out.append(("enc:grows", "len(compress(s)) = %d > 2*%d" % (len(c), len(s))))
    # an encoding stays what it is while the encoder is used again (two packets being built, a batch encoded first and sent later)
    try:
        held = compress(s)
        snap = bytes(held)
        compress(b"\x07" + s[::-1] + b"\x00\x00\x09")
        if bytes(held) != snap:
            out.append(("enc:result-changed-by-later-call", "the encoding of %r... changed when another string was encoded afterwards" % s[:16]))
    except Exception as e:
        out.append(("enc:second-call-raises:%s" % type(e).__name__, "%r" % (e,)))
    return out


def dec_laws(x: bytes):
    out = []
    rl = expand_ref_len(x)
    try:
        d = bytes(expand(x))
        err = None
    except ValueError as e:
        d, err = None, e
    except Exception as e:
        return [("dec:raises:%s" % type(e).__name__, "expand raised %r" % (e,))]
    if rl <= CAP:
        if err is not None:
            out.append(("dec:refuses-under-cap", "reference length %d <= cap but expand raised %r" % (rl, err)))
        elif d != expand_ref(x):
            out.append(("dec:differs-from-reference", "expand(%r...) differs from reference (ref len %d, got %d)"
                        % (x[:24], rl, len(d))))
    elif rl > CAP + 256:
        if err is None:
            out.append(("dec:no-cap", "reference length %d > cap+256 but expand returned %d bytes" % (rl, len(d))))
    else:
        if err is None and d != expand_ref(x):
            out.append(("dec:differs-from-reference", "near-cap decode differs from reference"))
    return out


def nontrivial_enc(s: bytes):
    return b"\x00\x00" in s


# ---- shards ------------------------------------------------------------------------------------
def shards(tier):
    th = tier == "thorough"
    enc_len = 13 if th else 12
    dec_len = 11 if th else 9
    sh = []
    # E1: exhaustive strings over an alphabet, split by 2-symbol prefix
    for pre in itertools.product(range(3), repeat=2):
        sh.append({"kind": "enc_enum", "prefix": list(pre), "maxlen": enc_len})
    for pre in itertools.product(range(4), repeat=2):
        sh.append({"kind": "dec_enum", "prefix": list(pre), "maxlen": dec_len})
    sh.append({"kind": "runs"})
    n_rand = 16 if th else 8
    for i in range(n_rand):
        sh.append({"kind": "enc_rand", "n": 30000 if th else 1500})
        sh.append({"kind": "dec_rand", "n": 30000 if th else 2500})
    sh.append({"kind": "peek", "n": 20000 if th else 1500})
    # the coding as messages use it: zero-coded datagrams through the real serializer and deserializer (C02's laws on them)
    sh.append({"kind": "msg", "n": 6000 if th else 500})
    sh.append({"kind": "bomb", "n": 200 if th else 40})
    if th:
        for i in range(4):
            sh.append({"kind": "atheris", "runs": 400000, "offset": i, "empty": i == 3})
    return sh


ENC_ALPHA = (0x00, 0x01, 0xFF)
DEC_ALPHA = (0x00, 0x01, 0x02, 0xFF)


def _enum(ctx, alpha, prefix, maxlen, laws, cls, nontriv):
    pre = bytes(alpha[i] for i in prefix)
    n_eval = n_nt = 0
    sample = None
    # shorter strings (len < 2) are handled by the shard with prefix (0,0)
    todo = []
    if prefix == [0, 0]:
        todo = [b""] + [bytes([a]) for a in alpha]
    for s in todo:
        n_eval += 1
        ctx.report(s, laws(s))
    for ln in range(0, maxlen - 1):
        for tail in itertools.product(alpha, repeat=ln):
            s = pre + bytes(tail)
            n_eval += 1
            if nontriv(s):
                n_nt += 1
                if sample is None and ln >= 4:
                    sample = s
            res = laws(s)
            if res:
                ctx.report(s, res)
    ctx.bulk(n_eval, n_nt, {cls: n_nt}, sample)


run_heavy = st.lists(
    st.tuples(st.one_of(st.just(0), st.just(0), st.integers(0, 255)),
              st.one_of(st.integers(1, 4), st.integers(250, 260), st.integers(1, 600), st.sampled_from([254, 255, 256, 509, 510, 511, 512, 765]))),
    max_size=40).map(lambda prs: b"".join(bytes([b]) * r for b, r in prs)[:CAP])

dec_token = st.one_of(
    st.integers(1, 255).map(lambda b: bytes([b])),
    st.integers(1, 255).map(lambda n: bytes([0, n])),
    st.tuples(st.integers(1, 3), st.integers(1, 255)).map(lambda t: bytes(1 + t[0]) + bytes([t[1]])),
    st.binary(min_size=1, max_size=6),
)
dec_stream = st.tuples(st.lists(dec_token, max_size=30), st.sampled_from([b"", b"", b"\x00", b"\x00\x00", b"\x00\x00\x00"])
                       ).map(lambda t: b"".join(t[0]) + t[1])
dec_big = st.tuples(st.lists(st.one_of(
    st.tuples(st.integers(1, 60), st.integers(1, 255)).map(lambda t: bytes(1 + t[0]) + bytes([t[1]])),
    st.integers(1, 255).map(lambda n: bytes([0, n])),
    st.binary(min_size=1, max_size=3)), min_size=1, max_size=12), st.sampled_from([b"", b"\x00", b"A"])
).map(lambda t: b"".join(t[0]) + t[1])


def _dec_body(ctx):
    def body(x):
        rl = expand_ref_len(x)
        cls = []
        if b"\x00\x00" in x:
            cls.append("dec_wrap")
        if x.endswith(b"\x00"):
            cls.append("dec_trailing_zero")
        if rl > CAP:
            cls.append("dec_overcap")
        if CAP - 300 <= rl <= CAP + 300:
            cls.append("dec_nearcap")
        ctx.case(x, nontrivial=b"\x00" in x, classes=cls)
        return dec_laws(x)
    return body


def _peek_strategy():
    names = sorted(t.name for t in DEFAULT_TEMPLATE_DICT.message_templates.values()) \
        if hasattr(DEFAULT_TEMPLATE_DICT, "message_templates") else None
    if not names:
        names = sorted(DEFAULT_TEMPLATE_DICT.message_dict.keys()) if hasattr(DEFAULT_TEMPLATE_DICT, "message_dict") \
            else sorted(t.name for t in DEFAULT_TEMPLATE_DICT)
    zeroish = st.lists(st.one_of(st.just(0), st.just(0), st.integers(0, 255)), max_size=255).map(bytes)
    return st.tuples(st.sampled_from(names), zeroish, st.one_of(st.binary(max_size=40), zeroish),
                     st.integers(0, 0xFFFFFFFF), st.booleans())


def _peek_body(ctx):
    deser = UDPMessageDeserializer(settings=Settings())   # deferred parsing on: header only

    def body(case):
        name, extra, tail, pid, split = case
        tmpl = DEFAULT_TEMPLATE_DICT.get_template_by_name(name)
        plain = bytes(tmpl.freq_num_bytes) + extra + tail
        comp = bytes(compress(plain))
        if split:
            # a legal non-canonical coding: every zero written as its own "00 01" pair
            comp = b"".join(b"\x00\x01" if b == 0 else bytes([b]) for b in plain)
        dg = bytes([0x80]) + pid.to_bytes(4, "big") + bytes([len(extra)]) + comp
        ctx.case(case, nontrivial=len(extra) > 0, classes=["peek"] + (["peek_zero_extra"] if b"\x00" in extra else []))
        try:
            msg = deser.deserialize(dg)
        except Exception as e:
            return [("peek:raises:%s" % type(e).__name__, "header parse of zero-coded %s with %d extra bytes raised %r"
                     % (name, len(extra), e))]
        out = []
        if msg.name != name:
            out.append(("peek:name", "peeked name %s != %s" % (msg.name, name)))
        if bytes(msg.extra) != extra:
            out.append(("peek:extra", "peeked extra %r != %r" % (bytes(msg.extra)[:20], extra[:20])))
        if msg.packet_id != pid:
            out.append(("peek:packet_id", "packet id"))
        return out
    return body


def _token_mix(ctx, i):
    import random
    r = random.Random("%s/mix/%d" % (ctx.hseed, i))
    toks = [b"\x00\x01", b"\x00\x01", b"\x00\x02", b"\x41", b"\x00" + bytes([r.randrange(1, 6)]), bytes([r.randrange(1, 256)])]
    out, n = [], 0
    while n <= CAP + 300 + 13 * i:
        t = r.choice(toks)
        out.append(t)
        n += t[1] if t[0] == 0 else 1
    return b"".join(out)


def _bomb(ctx, n):
    """zip bombs: the decoder must raise before building much more than the cap."""
    for i in range(n):
        for kind, x in (("pairs", b"\x00\xff" * (200 + 50 * i)), ("wrap", b"\x00" * (300 + 100 * i) + b"\x05"),
                        ("wrap-tail", b"\x00" * (4000 + 500 * i)),
                        # past the cap through runs, then nothing but literal bytes: the refusal must not depend on being inside a run
                        ("pairs-then-literals", b"\x00\xff" * (49 + i % 5) + b"\x01" * (300 + 997 * i)),
                        ("literals-only", b"\x41" * (0x3000 + 300 + 61 * i)),
                        # past the cap through the smallest tokens only: every zero that is written counts, also the one a count of 1 stands for
                        ("single-zero-tokens", b"\x00\x01" * (0x3000 + 300 + 97 * i)),
                        ("short-run-tokens", (b"\x00\x02", b"\x00\x01\x41", b"\x41\x00\x01", b"\x00\x03\x00\x01")[i % 4] * (0x3000 + 300 + 97 * i)),
                        ("token-mix", _token_mix(ctx, i))):
            rl = expand_ref_len(x)
            ctx.case(("bomb", kind, i), nontrivial=True, classes=["dec_overcap", "bomb"])
            tracemalloc.start()
            try:
                try:
                    expand(x)
                    raised = False
                except ValueError:
                    raised = True
                _, peak = tracemalloc.get_traced_memory()
            finally:
                tracemalloc.stop()
            if not raised:
                ctx.fail("dec:no-cap", "bomb %s len %d (reference %d bytes) was expanded" % (kind, len(x), rl), x)
            elif peak > 4 * (CAP + 1024):
                ctx.fail("dec:unbounded-alloc", "bomb %s: peak traced allocation %d bytes before refusing (cap 0x3000)"
                         % (kind, peak), x)


def _msg_shard(ctx, n):
    from checks import c02
    from vlib import gen_template as gt
    fixed = []
    for ids in ([0x01000100, 0x00010001], [0x01000100], [0x00010001, 0x01000001, 0x01010100], [0x01010101], [0]):
        fixed.append({"name": "PacketAck", "flags": 0x80, "pid": 77, "acks": [], "extra": b"", "fill": False,
                      "blocks": [["Packets", [{"ID": i} for i in ids]]]})
    for msg in fixed:
        for deferred, inspect in ((False, ["never"]), (True, ["blocks"]), (True, ["never"])):
            case = {"msg": msg, "muts": [], "deferred": deferred, "inspect": inspect}
            ctx.case(("msg", repr(msg["blocks"]), deferred, tuple(inspect)), nontrivial=True, classes=["msg_level", "msg_isolated_zeros"])
            res = c02.laws(None, case)
            if res:
                ctx.report({"msg_case": case}, [("msg-level:" + s, m) for s, m in res])
    strat = st.fixed_dictionaries({
        "msg": gt.message_case(allow_str=False).map(lambda c: dict(c, flags=c["flags"] | 0x80) if len(gt.ref_body(c)) < 0x2F00 else c),
        "muts": st.one_of(st.just([]), st.lists(st.tuples(st.just("trunc"), st.floats(min_value=0.3, max_value=0.999)), min_size=1, max_size=1),
                          st.lists(st.tuples(st.just("cutblocks"), st.integers(0, 5)), min_size=1, max_size=1),
                          st.lists(st.tuples(st.just("rezero"), st.sampled_from(["pairs", "split", "wrap", "lone"])), min_size=1, max_size=1)),
        "inspect": c02.INSPECT, "deferred": st.sampled_from([True, True, False])})

    def body(case):
        ctx.case(("msg", case["msg"]["name"], tuple(map(tuple, case["muts"])), case["deferred"], tuple(case["inspect"])),
                 nontrivial=bool(case["msg"]["flags"] & 0x80), classes=["msg_level"])
        return [("msg-level:" + s, m) for s, m in c02.laws(None, case)]
    hyp_run(ctx, strat.map(lambda c: {"msg_case": c}), lambda wrapped: body(wrapped["msg_case"]), n, label="msg")


def run_shard(ctx, shard):
    k = shard["kind"]
    if k == "msg":
        _msg_shard(ctx, shard["n"])
        return
    if k == "enc_enum":
        _enum(ctx, ENC_ALPHA, shard["prefix"], shard["maxlen"], enc_laws, "enc_nontrivial", nontrivial_enc)
    elif k == "dec_enum":
        _enum(ctx, DEC_ALPHA, shard["prefix"], shard["maxlen"], dec_laws, "dec_enum_nontrivial",
              lambda s: b"\x00" in s)
    elif k == "runs":
        n = 0
        for left in (b"", b"\x01", b"\xff"):
            for right in (b"", b"\x01", b"\xff"):
                for run in range(0, 1101):
                    s = left + bytes(run) + right
                    n += 1
                    ctx.report(s, enc_laws(s))
        # strings inside the cap whose *encoding* is longer than the cap (many isolated zeros): still to be decoded
        for unit in (b"\x01\x00", b"\x00\x01", b"\x00\xff\x00", b"ab\x00"):
            for total in (0x3000, 0x3000 - 1, 0x2F00, 9000, 0x2000 + 7):
                s = (unit * (total // len(unit) + 1))[:total]
                n += 1
                ctx.count("enc_longer_than_cap", 1 if len(compress(s)) > CAP else 0)
                ctx.report(s, enc_laws(s))
        ctx.bulk(n, n - 9 * 2, {"enc_runs": n}, ("left", "01", "run", 767, "right", "ff"))
    elif k == "enc_rand":
        def body(s):
            ctx.case(s, nontrivial=nontrivial_enc(s),
                     classes=(["enc_nontrivial"] if nontrivial_enc(s) else []) + (["enc_long_run"] if bytes(256) in s else []))
            return enc_laws(s)
        hyp_run(ctx, st.one_of(run_heavy, st.binary(max_size=300)), body, shard["n"])
    elif k == "dec_rand":
        hyp_run(ctx, st.one_of(dec_stream, dec_stream, dec_big, st.binary(max_size=64)), _dec_body(ctx), shard["n"])
    elif k == "peek":
        hyp_run(ctx, _peek_strategy(), _peek_body(ctx), shard["n"])
    elif k == "bomb":
        _bomb(ctx, shard["n"])
    elif k == "atheris":
        from vlib.fuzz import run_campaign
        run_campaign(ctx, "checks.c03", shard["runs"], 4096, FUZZ_CORPUS, "zerocode", shard["offset"], shard["empty"])
    else:
        raise ValueError(k)


FUZZ_CORPUS = [b"", b"\x01", b"\x00\x01", b"\x00\x00\x05", b"\x01\x02\x00\xff\x03", b"\x00", b"\x00\x00", b"abc\x00\x03def\x00", bytes(255), bytes(256), bytes(300) + b"\x07",
               b"\x00\x00\x2c", b"\x00\xff\x00\x01", b"\x00\x00\x00\x01"]


def fuzz_one(data: bytes):
    """atheris target: both directions of the code for one byte string, judged by the same oracles"""
    res = enc_laws(data) + dec_laws(data)
    cl = []
    if b"\x00\x00" in data:
        cl.append("wrap-or-run")
    if expand_ref_len(data) > CAP:
        cl.append("overcap")
    return res, b"\x00" in data, cl


def replay(ctx, case):
    if isinstance(case, dict) and "msg_case" in case:
        from checks import c02
        c = case["msg_case"]
        c = dict(c, muts=[tuple(m) for m in c["muts"]])
        return [("msg-level:" + s, m) for s, m in c02.laws(None, c)]
    if isinstance(case, dict) and "fuzz" in case:
        return fuzz_one(bytes(case["data"]))[0]
    if isinstance(case, (bytes, bytearray)):
        return enc_laws(bytes(case)) + dec_laws(bytes(case))
    if isinstance(case, (tuple, list)) and len(case) == 5:
        return _peek_body(ctx)(tuple(case))
    return []

MANIFEST = {
    "text": "Exhaustive enumeration of the small-alphabet / run-length sub-domains the property names plus generated "
            "byte strings and token streams, each judged by an independent reference decoder, a canonical-form "
            "predicate and the size-cap oracle; a zero-coding change that alters any encoding of those domains is "
            "seen deterministically, others with the stated random coverage.",
    "note": "Trusts the in-/verif reference decoder (30 lines, from the format description). Cap clause checked as "
            "raise-vs-return at the boundary (+256 slack) and a tracemalloc peak bound on zip bombs, not as a proof "
            "about the allocator.",
    "technique": "exhaustive enumeration + Hypothesis generation, differential vs reference decoder, round-trip and canonical-form predicate; thorough tier adds coverage-guided atheris campaigns with the same oracles inside the target",
}
