"""C06 - UDP proxying is transparent: right peer, exactly once, content intact."""
import socket
import struct

from hypothesis import strategies as st

from hippolyzer.lib.base.message.udpdeserializer import UDPMessageDeserializer
from hippolyzer.lib.base.settings import Settings

from vlib import gen_template as gt
from vlib.proxy_harness import ProxyWorld, socks_header, UDP_BANNED
from vlib.runner import hyp_run
from checks.c02 import ref_datagram

PROPERTY = "C06"
LEVEL = "exploration"
RULE = ("datagram histories through a real SessionManager + InterceptingLLUDPProxyProtocol + SOCKS5UDPTransport over a "
        "recording socket, 1-2 viewers (associations/sessions) x 1-3 regions each (same IP, different ports), no addons, "
        "deferred parsing on/off: UseCircuitCode, valid template messages of any type viewer->sim (wrapped with an RFC 1928 "
        "header built in /verif) and sim->viewer, circuit-closing messages, interleaved with faults: frag!=0, rsv!=0, address "
        "types 3/4/other, short header, non-SOCKS from the viewer, unknown host, sim before viewer, no circuit, unregistered "
        "address, pre-session traffic, UDP-banned names inbound, truncated / bit-flipped payloads, unknown message numbers, ack trailers that "
        "leave no room for a message, foreign or replayed circuit claims, disconnects.  "
        "Each delivery is compared with a model of expected deliveries; session state is compared at the end.  Thorough adds "
        "every template name once in each direction.  Non-trivial = history with a fault between two valid datagrams; "
        "distinct by event content.")
ASSUMPTIONS = [
    "ChatFromViewer on the proxy's command channel (524) is the proxy's own feature and is excluded from the valid traffic (counted)",
    "after CloseCircuit / DisableSimulator the circuit is closed and traffic to that region is no longer constrained until the next UseCircuitCode",
    "a datagram with a valid header but a corrupt body may be either discarded or (deferred parsing) forwarded byte-identically to the right peer, at most once",
    "content equality is value equality at the template's types (the ACK flag is normalised to `acks present`)",
]
FLOORS = {"quick": {"valid_v2s": 1500, "valid_s2v": 1200, "h_nontrivial": 200, "two_viewers": 100,
                    "fault:frag": 20, "fault:rsv": 20, "fault:atyp": 20, "fault:short": 8, "fault:unknown_host": 8,
                    "fault:no_circuit": 20, "fault:presession": 20, "fault:banned_in": 10, "fault:truncated": 6,
                    "fault:bitflip": 5, "fault:unknown_msgnum": 5, "fault:acks_eat_body": 4, "fault:foreign_ucc": 5, "fault:foreign_socks": 5, "fault:replay_ucc": 3, "fault:sim_first": 10, "fault:nonsocks": 5,
                    "fault:atyp3": 8, "fault:unregistered": 8}}
MANIFEST = {
    "text": "Generated multi-session datagram histories with interleaved faults through the real proxy protocol stack; every "
            "socket write is attributed to a source datagram and compared (destination, SOCKS framing per RFC 1928, decoded "
            "content) with a delivery model; faults must produce no delivery and leave later deliveries and session state intact.",
    "note": "Sampling over histories; thorough tier additionally pushes every template name through the proxy in both directions. "
            "asyncio datagram plumbing is replaced by a recording socket object.",
    "technique": "Hypothesis-generated datagram/fault histories against a delivery reference model (differential on socket writes)",
}

SPECIAL = {"UseCircuitCode", "CloseCircuit", "DisableSimulator"}
V2S_NAMES = [n for n in gt.ALL_NAMES if n not in SPECIAL]
S2V_NAMES = [n for n in V2S_NAMES if n not in UDP_BANNED]
BANNED_NAMES = [n for n in UDP_BANNED if n in gt.TEMPLATES]
_D = Settings()
_D.ENABLE_DEFERRED_PACKET_PARSING = False
DESER = UDPMessageDeserializer(settings=_D)


def _spells_close(dg: bytes) -> bool:
    """does this (corrupted) datagram happen to read as one of the two circuit-closing messages?  (own reading of the header)"""
    if len(dg) < 7:
        return False
    body = dg[6 + dg[5]:]
    if dg[0] & 0x80:
        out = bytearray()
        i = 0
        while i < len(body) and len(out) < 8:
            if body[i] == 0 and i + 1 < len(body):
                out += bytes(body[i + 1])
                i += 2
            else:
                out.append(body[i])
                i += 1
        body = bytes(out)
    return body[:4] in (b"\xff\xff\x00\x98", b"\xff\xff\xff\xfd")


def _fix_case(case, classes):
    """keep the proxy's own command channel out of the valid traffic"""
    if case["name"] == "PacketAck":
        # an empty PacketAck is not meaningful traffic (the proxy deliberately never forwards one)
        for blk in case["blocks"]:
            if blk[0] == "Packets" and not blk[1]:
                blk[1].append({"ID": 1})
                classes.append("excluded_empty_packetack")
        if not case["blocks"]:
            case["blocks"] = [["Packets", [{"ID": 1}]]]
    if case["name"] == "ChatFromViewer":
        for bname, insts in case["blocks"]:
            if bname == "ChatData":
                for d in insts:
                    if d.get("Channel") == 524:
                        d["Channel"] = 525
                        classes.append("excluded_command_channel")
    return case


def ucc_case(world, v, pid):
    s = world.viewers[v]["session"]
    return {"name": "UseCircuitCode", "flags": 0x40, "pid": pid, "acks": [], "extra": b"", "fill": False,
            "blocks": [["CircuitCode", [{"Code": s.circuit_code, "SessionID": s.id.hex, "ID": s.agent_id.hex}]]]}


def check_content(case, payload, tag):
    out = []
    try:
        m = DESER.deserialize(payload)
    except Exception as e:
        return [("content:undecodable:%s" % tag, "%s: forwarded datagram cannot be decoded: %r" % (case["name"], e))]
    diffs = gt.compare_decoded(case, m)
    for loc, why in diffs[:2]:
        out.append(("content:value:%s" % tag, "%s %s: %s" % (case["name"], loc, why)))
    if m.packet_id != case["pid"]:
        out.append(("content:packet-id:%s" % tag, "packet id %r != %r" % (m.packet_id, case["pid"])))
    if tuple(m.acks) != tuple(case["acks"]):
        out.append(("content:acks:%s" % tag, "acks %r != %r" % (tuple(m.acks)[:4], tuple(case["acks"])[:4])))
    if bytes(m.extra) != case["extra"]:
        out.append(("content:extra:%s" % tag, "extra differs"))
    want = case["flags"] & 0xFF
    want = (want | 0x10) if case["acks"] else (want & ~0x10)
    if m.send_flags != want:
        out.append(("content:flags:%s" % tag, "flags %#x != %#x" % (m.send_flags, want)))
    return out


class Run:
    def __init__(self, hist):
        self.hist = hist
        self.world = ProxyWorld(hist["viewers"], hist["regions"], hist["deferred"])
        self.claimed = [False] * hist["viewers"]
        self.open = {}            # (v, r) -> bool
        self.ever_open = set()
        self.learned = set()      # (v, region addr) the association has seen the viewer send to
        self.pid = {}
        self.classes = []
        self.valid_seen = 0
        self.fault_between = False
        self.fault_seen_after_valid = False
        self.nontrivial = False
        self.dead = [False] * hist["viewers"]
        # what the proxy's own message handlers (object tracking, parcels, name cache, addons' subscriptions) get to see
        self.dispatched = []
        for vw in self.world.viewers:
            vw["session"].message_handler.subscribe("*", lambda m, _l=self.dispatched: _l.append(m.name))

    def next_pid(self, v, r, d):
        # sequence numbers start at 1 (the reference viewer) or at 0 (hippolyzer's own client): both are legal U32 values
        k = (v, r, d)
        first = 0 if self.hist.get("zero_based") else 1
        self.pid[k] = self.pid[k] + 1 if k in self.pid else first
        return self.pid[k]

    def region_addr(self, v, r):
        return self.world.viewers[v]["regions"][r]

    def _mark_valid(self):
        if self.fault_seen_after_valid:
            self.nontrivial = True
        self.valid_seen += 1

    def expect_out(self, v, r, case, sent, exc, tag):
        """a valid viewer->sim datagram on an open circuit: exactly one raw write to the region's address"""
        out = []
        addr = self.region_addr(v, r)
        if exc is not None:
            out.append(("lost:exception:%s:%s" % (tag, type(exc).__name__), "%s viewer->sim raised %r and was not delivered" % (case["name"], exc)))
        if len(sent) != 1:
            if not out:
                out.append(("delivery-count:%s" % tag, "%s viewer->sim produced %d socket writes (expected exactly 1)" % (case["name"], len(sent))))
            return out
        assoc, data, dst = sent[0]
        if assoc != v or dst != addr:
            out.append(("wrong-peer:%s" % tag, "%s for %r written to %r on association %d" % (case["name"], addr, dst, assoc)))
        out.extend(check_content(case, data, tag))
        return out

    def expect_in(self, v, r, case, sent, exc, tag):
        out = []
        addr = self.region_addr(v, r)
        vaddr = self.world.viewers[v]["addr"]
        if exc is not None:
            out.append(("lost:exception:%s:%s" % (tag, type(exc).__name__), "%s sim->viewer raised %r and was not delivered" % (case["name"], exc)))
        if len(sent) != 1:
            if not out:
                out.append(("delivery-count:%s" % tag, "%s sim->viewer produced %d socket writes (expected exactly 1)" % (case["name"], len(sent))))
            return out
        assoc, data, dst = sent[0]
        if assoc != v or dst != vaddr:
            out.append(("wrong-peer:%s" % tag, "%s from %r written to %r on association %d (viewer is %r)" % (case["name"], addr, dst, assoc, vaddr)))
        hdr = socks_header(addr)
        if data[:10] != hdr:
            out.append(("socks-wrap:%s" % tag, "inbound datagram from %r wrapped with header %s, expected %s" % (addr, data[:10].hex(), hdr.hex())))
        out.extend(check_content(case, data[10:], tag))
        return out

    def expect_none(self, sent, kind, what):
        if sent:
            return [("fault-delivered:%s" % kind, "%s produced %d socket write(s): %r" % (what, len(sent), [(a, d[:12].hex(), dst) for a, d, dst in sent][:3]))]
        return []

    def step(self, ev):
        w = self.world
        k = ev[0]
        out = []
        vi = ev[2] if k == "fault" else ev[1]
        if self.dead[vi]:
            return None
        if k == "disconnect":
            # this viewer's SOCKS control connection ends: its association and session go, nobody else's
            _, v = ev
            if sum(1 for d in self.dead if not d) < 2:
                return None
            w.disconnect(v)
            self.dead[v] = True
            self.classes.append("viewer_disconnected")
            vw = w.viewers[v]
            if not vw["sock"].closed:
                out.append(("disconnect:association-left-open", "association %d still open after its control connection ended" % v))
            for u, uw in enumerate(w.viewers):
                if self.dead[u]:
                    continue
                if uw["sock"].closed or uw["proto"].session is not (uw["session"] if self.claimed[u] else None) or \
                        (self.claimed[u] and uw["session"] not in w.sm.sessions):
                    out.append(("disconnect:other-viewer-torn-down", "viewer %d disconnected and association %d lost its socket or session" % (v, u)))
            self._fault()
        elif k == "ucc":
            _, v, r = ev
            case = ucc_case(w, v, self.next_pid(v, r, "out"))
            sent, exc = w.from_viewer(v, self.region_addr(v, r), ref_datagram(case))
            self.learned.add((v, self.region_addr(v, r)))
            self.claimed[v] = True
            self.open[(v, r)] = True
            self.ever_open.add((v, r))
            out = self.expect_out(v, r, case, sent, exc, "ucc")
            self._mark_valid()
        elif k == "close":
            _, v, r, inbound = ev
            if not self.open.get((v, r)):
                return None
            if inbound:
                if (v, self.region_addr(v, r)) not in self.learned:
                    return None
                case = {"name": "DisableSimulator", "flags": 0x40, "pid": self.next_pid(v, r, "in"), "acks": [], "extra": b"", "fill": False, "blocks": []}
                sent, exc = w.from_sim(v, self.region_addr(v, r), ref_datagram(case))
                out = self.expect_in(v, r, case, sent, exc, "close")
            else:
                s = w.viewers[v]["session"]
                case = {"name": "CloseCircuit", "flags": 0, "pid": self.next_pid(v, r, "out"), "acks": [], "extra": b"", "fill": False, "blocks": []}
                sent, exc = w.from_viewer(v, self.region_addr(v, r), ref_datagram(case))
                out = self.expect_out(v, r, case, sent, exc, "close")
            self.open[(v, r)] = False
            self.classes.append("circuit_closed")
            self._mark_valid()
        elif k == "v2s":
            _, v, r, case = ev
            case = _fix_case(dict(case, pid=self.next_pid(v, r, "out")), self.classes)
            sent, exc = w.from_viewer(v, self.region_addr(v, r), ref_datagram(case))
            self.learned.add((v, self.region_addr(v, r)))
            if not self.claimed[v]:
                self.classes.append("fault:presession")
                out = self.expect_none(sent, "presession", "pre-session %s" % case["name"])
                self._fault()
            elif self.open.get((v, r)):
                out = self.expect_out(v, r, case, sent, exc, "v2s")
                self.classes.append("valid_v2s")
                self._mark_valid()
            elif (v, r) in self.ever_open:
                self.classes.append("after_close_unconstrained")
            else:
                self.classes.append("fault:no_circuit")
                out = self.expect_none(sent, "no_circuit", "%s for a region without a circuit" % case["name"])
                self._fault()
        elif k == "s2v":
            _, v, r, case = ev
            case = _fix_case(dict(case, pid=self.next_pid(v, r, "in")), self.classes)
            sent, exc = w.from_sim(v, self.region_addr(v, r), ref_datagram(case))
            if (v, self.region_addr(v, r)) not in self.learned:
                self.classes.append("fault:sim_first")
                out = self.expect_none(sent, "sim_first", "sim datagram before any viewer datagram")
                self._fault()
            elif self.open.get((v, r)):
                out = self.expect_in(v, r, case, sent, exc, "s2v")
                self.classes.append("valid_s2v")
                self._mark_valid()
            elif (v, r) in self.ever_open:
                self.classes.append("after_close_unconstrained")
            else:
                self.classes.append("fault:no_circuit")
                out = self.expect_none(sent, "no_circuit", "sim datagram for a region without a circuit")
                self._fault()
        elif k == "fault":
            out = self.fault(ev)
        else:
            raise ValueError(ev)
        return out

    def _fault(self):
        if self.valid_seen:
            self.fault_seen_after_valid = True

    def fault(self, ev):
        _, kind, v, r, case, p = ev
        w = self.world
        addr = self.region_addr(v, r)
        vaddr = w.viewers[v]["addr"]
        payload = ref_datagram(dict(case, pid=999000 + p))
        self.classes.append("fault:" + kind)
        self._fault()
        if kind == "frag":
            sent, exc = w.from_viewer(v, addr, payload, header=socks_header(addr, frag=[1, 0x80, 0xFF, 0x7F, 0x40, 2][p % 6] if p % 3 else 1 + p % 255))
        elif kind == "rsv":
            sent, exc = w.from_viewer(v, addr, payload, header=socks_header(addr, rsv=[1, 0x100, 0x8000, 0xFFFF, 0x00FF][p % 5] if p % 3 else 1 + p % 0xFFFF))
        elif kind == "atyp":
            sent, exc = w.from_viewer(v, addr, payload, header=socks_header(addr, atyp=[4, 0, 2, 5, 255][p % 5]))
        elif kind == "atyp3":
            name = b"sim.example"
            hdr = struct.pack("!HBB", 0, 0, 3) + bytes([len(name)]) + name + struct.pack("!H", addr[1])
            sent, exc = w.from_viewer(v, addr, payload, header=hdr)
        elif kind == "short":
            sent, exc = w.feed(v, (socks_header(addr) + payload)[:p % 10], vaddr)
        elif kind == "nonsocks":
            sent, exc = w.feed(v, payload, vaddr)
        elif kind == "unknown_host":
            sent, exc = w.feed(v, payload, ("192.0.2.%d" % (1 + p % 200), 4000 + p % 100))
        elif kind == "foreign_socks":
            # perfectly SOCKS5-framed, addressed to a simulator with an open circuit - but not from the SOCKS client's address
            sent, exc = w.feed(v, socks_header(addr) + payload, ("192.0.2.%d" % (1 + p % 200), 4000 + p % 100))
        elif kind == "replay_ucc":
            # an association that has not logged in replays a UseCircuitCode naming a session somebody else already claimed
            u = (v + 1 + p) % len(w.viewers)
            if self.claimed[v] or not self.claimed[u] or u == v:
                self.classes.pop()
                return None
            bound_before = [vw["proto"].session for vw in w.viewers]
            sent, exc = w.from_viewer(v, addr, ref_datagram(ucc_case(w, u, 555000 + p)))
            self.learned.add((v, addr))
            if [vw["proto"].session for vw in w.viewers] != bound_before:
                return [("fault-disturbed-state:replay_ucc", "association %d got bound to the session association %d had already claimed" % (v, u))]
        elif kind == "unregistered":
            other = ("10.9.%d.9" % (p % 200), 14000 + p % 50)
            sent, exc = w.from_viewer(v, other, payload)
            self.learned.add((v, other))
        elif kind == "foreign_ucc":
            # a host the viewer has merely sent something to answers with a UseCircuitCode naming a pending session
            other = ("10.8.%d.8" % (p % 200), 15000 + p % 50)
            w.from_viewer(v, other, payload)
            self.learned.add((v, other))
            u = (v + p) % len(w.viewers)
            bound_before = [vw["proto"].session for vw in w.viewers]
            pending_before = [vw["session"].pending for vw in w.viewers]
            sent, exc = w.from_sim(v, other, ref_datagram(ucc_case(w, u, 777000 + p)))
            if [vw["proto"].session for vw in w.viewers] != bound_before or [vw["session"].pending for vw in w.viewers] != pending_before:
                return [("fault-disturbed-state:foreign_ucc", "an inbound UseCircuitCode from an unrelated host on association %d changed which "
                         "session is claimed (pending %r -> %r)" % (v, pending_before, [vw["session"].pending for vw in w.viewers]))]
        elif kind == "banned_in":
            if (v, addr) not in self.learned or not self.open.get((v, r)):
                self.classes.pop()
                return None
            n_disp = len(self.dispatched)
            sent, exc = w.from_sim(v, addr, payload)
            if len(self.dispatched) != n_disp:
                return [("fault-disturbed-state:banned_in:dispatched", "a %s received over UDP (banned there) was still dispatched to the session's "
                         "message handlers" % case["name"])]
        elif kind in ("truncated", "bitflip", "unknown_msgnum", "acks_eat_body"):
            inbound = bool(p & 1) and (v, addr) in self.learned
            if not self.open.get((v, r)):
                self.classes.pop()
                return None
            if kind == "truncated":
                bad = payload[:max(0, min(len(payload) - 1, 3 + (p >> 1) % max(1, len(payload) - 3)))]
            elif kind == "bitflip":
                pos = 6 + (p >> 1) % max(1, len(payload) - 6)
                pos = min(pos, len(payload) - 1)
                bad = payload[:pos] + bytes([payload[pos] ^ (1 << (p % 8))]) + payload[pos + 1:]
            elif kind == "acks_eat_body":
                # ACK flag set and a trailer of n acks that takes up everything behind the 6-byte header: there is no message number, the
                # datagram is not a message - whatever the bytes in the ack positions would spell as one (CloseCircuit, DisableSimulator, ...)
                n_acks = 1 + (p >> 3) % 3
                first = [b"\xff\xff\xff\xfd", b"\xff\xff\x00\x98", b"\xff\xff\xff\xfb", struct.pack(">I", 0xFFFF0000 | ((p >> 5) % 400))][(p >> 1) % 4]
                bad = bytes([0x10 | (0x40 if p & 0x1000 else 0)]) + struct.pack(">I", 50000 + p) + b"\x00" + first + b"\x00\x00\x00\x07" * (n_acks - 1) + bytes([n_acks])
            else:
                bad = payload[:6] + b"\xff\xff\x7f\xf0" + payload[6:]
            if kind in ("truncated", "bitflip") and _spells_close(bad):
                # the corruption turned the datagram into a valid circuit-closing message: not a fault any more
                self.classes.pop()
                self.classes.append("excluded:corruption-spells-close")
                return None
            if inbound:
                sent, exc = w.from_sim(v, addr, bad)
            else:
                sent, exc = w.from_viewer(v, addr, bad)
                self.learned.add((v, addr))
            # corrupt payloads: either discarded, or passed through byte-identically to the right peer, at most once
            out = []
            if len(sent) > 1:
                out.append(("fault-delivered:%s:duplicated" % kind, "corrupt datagram produced %d socket writes" % len(sent)))
            elif len(sent) == 1:
                assoc, data, dst = sent[0]
                want_dst = vaddr if inbound else addr
                body = data[10:] if inbound else data
                if dst != want_dst or assoc != v:
                    out.append(("wrong-peer:%s" % kind, "corrupt datagram forwarded to %r" % (dst,)))
                try:
                    want = DESER.deserialize(bad).to_dict() if kind != "acks_eat_body" else None      # not a message, by construction
                except Exception:
                    want = None
                if want is not None:
                    # still a decodable message (e.g. cut at a block boundary): must arrive as the same message
                    try:
                        got = DESER.deserialize(body).to_dict()
                    except Exception:
                        got = None
                    if repr(got) != repr(want):
                        out.append(("fault-delivered:%s:altered" % kind, "corrupt-but-decodable datagram was forwarded as a different message"))
                else:
                    norm = bad
                    if bad and bad[0] & 0x10 and bad[-1:] == b"\x00":
                        norm = bytes([bad[0] & ~0x10]) + bad[1:-1]
                    if body != bad and body != norm:
                        out.append(("fault-delivered:%s:altered" % kind, "undecodable datagram was forwarded with different bytes"))
                if kind == "unknown_msgnum":
                    out.append(("fault-delivered:unknown_msgnum", "datagram with an unknown message number was forwarded"))
                self.classes.append("corrupt_passed_through")
            return out
        else:
            raise ValueError(kind)
        return self.expect_none(sent, kind, "%s fault" % kind)

    def final_state(self):
        out = []
        w = self.world
        for v, vw in enumerate(w.viewers):
            s = vw["session"]
            if self.dead[v]:
                continue
            if s.pending != (not self.claimed[v]):
                out.append(("state:pending", "session %d pending=%s but claimed=%s" % (v, s.pending, self.claimed[v])))
            if len(s.regions) != self.hist["regions"]:
                out.append(("state:regions", "session %d has %d regions, expected %d" % (v, len(s.regions), self.hist["regions"])))
            for r, region in enumerate(s.regions):
                has = region.circuit is not None
                if has != ((v, r) in self.ever_open):
                    out.append(("state:circuit", "session %d region %d circuit present=%s, model %s" % (v, r, has, (v, r) in self.ever_open)))
                if has:
                    if bool(region.circuit.is_alive) != bool(self.open.get((v, r))):
                        out.append(("state:alive", "session %d region %d alive=%s, model %s" % (v, r, region.circuit.is_alive, self.open.get((v, r)))))
                    if region.circuit.out_injections.injections or region.circuit.in_injections.injections or region.circuit.unacked_reliable:
                        out.append(("state:injections", "session %d region %d has injected packets although nothing was injected" % (v, r)))
            if vw["proto"].session is not (s if self.claimed[v] else None):
                out.append(("state:association-session", "association %d is bound to %r" % (v, vw["proto"].session)))
        return out

    def close(self):
        self.world.close()


def run_history(ctx, hist):
    run = Run(hist)
    res = []
    try:
        for ev in hist["events"]:
            r = run.step(tuple(ev))
            if r is None:
                continue
            res.extend(r)
            if res:
                break
        if not res:
            res.extend(run.final_state())
    finally:
        run.close()
    classes = list(run.classes)
    if run.nontrivial:
        classes.append("h_nontrivial")
    if hist["viewers"] > 1:
        classes.append("two_viewers")
    if ctx is not None:
        for c in classes:
            ctx.count(c)
    return res, run


# ---- generation -------------------------------------------------------------------------------------
def _events(nv, nr):
    vs = st.integers(0, nv - 1)
    rs = st.integers(0, nr - 1)
    small = dict(allow_str=False, omit_trailing=True)
    v2s_case = gt.message_case(names=V2S_NAMES, **small)
    s2v_case = gt.message_case(names=S2V_NAMES, **small)
    banned_case = gt.message_case(names=BANNED_NAMES, **small)
    # messages the proxy's own bookkeeping parses (object tracking, name cache, parcels): a corrupt one of these gets parsed lazily
    parsed_case = gt.message_case(names=[n for n in ("KillObject", "CoarseLocationUpdate", "UUIDNameReply", "ObjectUpdate", "ObjectUpdateCached",
                                                     "ImprovedTerseObjectUpdate", "ObjectProperties", "RequestMultipleObjects", "ParcelOverlay")
                                         if n in gt.TEMPLATES], **small)
    kinds = ["frag", "rsv", "atyp", "atyp3", "short", "nonsocks", "unknown_host", "unregistered", "truncated", "bitflip", "unknown_msgnum",
             "foreign_ucc", "foreign_socks", "replay_ucc", "acks_eat_body"]
    return st.one_of(
        st.tuples(st.just("ucc"), vs, rs),
        st.tuples(st.just("v2s"), vs, rs, v2s_case), st.tuples(st.just("v2s"), vs, rs, v2s_case),
        st.tuples(st.just("s2v"), vs, rs, s2v_case), st.tuples(st.just("s2v"), vs, rs, s2v_case),
        # a circuit-opening request travelling the other way is a message like any other
        st.tuples(st.just("s2v"), vs, rs, gt.message_case(names=["UseCircuitCode", "RegionHandshake"], **small)),
        # (the last region is the neighbour that was announced without a handle: this is where it gets one)
        st.tuples(st.just("s2v"), vs, st.just(nr - 1), gt.message_case(names=["RegionHandshake"], **small)),
        st.tuples(st.just("ucc"), vs, st.just(nr - 1)),
        # names that are served over HTTP these days are refused when they come in over UDP - going out they are ordinary traffic
        st.tuples(st.just("v2s"), vs, rs, banned_case),
        st.tuples(st.just("close"), vs, rs, st.booleans()),
        st.tuples(st.just("disconnect"), vs),
        st.tuples(st.just("fault"), st.sampled_from(kinds), vs, rs, v2s_case, st.integers(0, 10000)),
        st.tuples(st.just("fault"), st.just("banned_in"), vs, rs, banned_case, st.integers(0, 10000)),
        # SOCKS header fields at their edge values (FRAG 0x80 / 0xFF / 0x7F, RSV 0x8000 ...)
        st.tuples(st.just("fault"), st.sampled_from(["frag", "rsv", "atyp"]), vs, rs, v2s_case, st.sampled_from([1, 2, 4, 5, 7, 8, 10, 11, 13])),
        st.tuples(st.just("fault"), st.sampled_from(["truncated", "truncated", "bitflip"]), vs, rs, parsed_case, st.integers(0, 10000).map(lambda i: i | 1)),
    )


@st.composite
def histories(draw, maxlen):
    nv = draw(st.sampled_from([1, 1, 2]))
    nr = draw(st.sampled_from([1, 2, 3]))
    deferred = draw(st.booleans())
    evs = draw(st.lists(_events(nv, nr), min_size=2, max_size=maxlen))
    lead = []
    if draw(st.integers(0, 9)) == 0:
        # before anybody has logged in on this association
        lead.append(("fault", "foreign_ucc", draw(st.integers(0, nv - 1)), 0, draw(gt.message_case(names=V2S_NAMES, allow_str=False, omit_trailing=True)),
                     draw(st.integers(0, 10000))))
    if draw(st.integers(0, 9)) < 8:
        lead.append(("ucc", 0, 0))
        if nv == 2 and draw(st.integers(0, 2)) == 0:
            # the second association has not logged in yet and replays the first one's UseCircuitCode
            lead.append(("fault", "replay_ucc", 1, 0, draw(gt.message_case(names=V2S_NAMES, allow_str=False, omit_trailing=True)),
                         2 * draw(st.integers(0, 5000))))
        if draw(st.booleans()):
            lead.append(("ucc", nv - 1, nr - 1))
    return {"viewers": nv, "regions": nr, "deferred": deferred, "events": lead + evs, "zero_based": draw(st.integers(0, 3)) == 0}


def shards(tier):
    th = tier == "thorough"
    sh = [{"kind": "hist", "n": 1300 if th else 220, "maxlen": 60 if th else 25} for _ in range(16)]
    sh.append({"kind": "chat_grid"})
    names = gt.ALL_NAMES
    per = 31 if th else 121
    for i in range(0, len(names), per):
        sh.append({"kind": "every_name", "names": names[i:i + per], "reps": 3 if th else 1})
    return sh


def _every_name(ctx, names, reps):
    """every template name once (or more) in each direction through one open circuit"""
    from hypothesis import given, settings, seed, HealthCheck, Phase
    for name in names:
        if name in SPECIAL:
            continue
        strat = st.lists(gt.message_case(names=[name], allow_str=False), min_size=reps, max_size=reps)

        def body(cases):
            evs = [("ucc", 0, 0)]
            for c in cases:
                evs.append(("v2s", 0, 0, c))
                if name not in UDP_BANNED:
                    evs.append(("s2v", 0, 0, c))
                else:
                    evs.append(("fault", "banned_in", 0, 0, c, 1))
            hist = {"viewers": 1, "regions": 1, "deferred": True, "events": evs}
            res, run = run_history(ctx, hist)
            ctx.case(("every_name", name, repr(cases)), nontrivial=True, classes=["every_name"])
            return res
        hyp_run(ctx, strat, body, 1)


CHAT_TEXTS = ["", "hello", "@", "@,", "@,,,", "@detach=n", "@a:b;c=force,@d=n", "@version", " @x=n", "\x00@y", "@\n",
              b"@x=n", b"@\xff\x00", b"\xfc\x00", b"@", "x" * 300]


def _chat_grid(ctx):
    """ChatFromSimulator for every chat type x source type x RLV-looking / odd texts; ChatFromViewer on channels around
    the command channel.  With no addon each must be delivered exactly once (command channel 524 excluded)."""
    n = 0
    for text in CHAT_TEXTS:
        for chat_type in range(0, 10):
            for source_type in (0, 1, 2):
                case = {"name": "ChatFromSimulator", "flags": 0x40, "pid": 1, "acks": [], "extra": b"", "fill": False,
                        "blocks": [["ChatData", [{"FromName": "obj", "SourceID": "%032x" % 7, "OwnerID": "%032x" % 8,
                                                   "SourceType": source_type, "ChatType": chat_type, "Audible": 1,
                                                   "Position": (1.0, 2.0, 3.0), "Message": text}]]]}
                hist = {"viewers": 1, "regions": 1, "deferred": True, "events": [("ucc", 0, 0), ("s2v", 0, 0, case), ("s2v", 0, 0, case)]}
                res, run = run_history(ctx, hist)
                n += 1
                if res:
                    ctx.report(hist, [("chat-grid:" + sig, msg + " [text=%r type=%d]" % (text, chat_type)) for sig, msg in res])
    for channel in (0, 1, 523, 525, -524, 2 ** 31 - 1):
        case = {"name": "ChatFromViewer", "flags": 0x40, "pid": 1, "acks": [], "extra": b"", "fill": False,
                "blocks": [["AgentData", [{"AgentID": "%032x" % 0x3000, "SessionID": "%032x" % 0x1000}]],
                           ["ChatData", [{"Message": "help", "Type": 1, "Channel": channel}]]]}
        hist = {"viewers": 1, "regions": 1, "deferred": True, "events": [("ucc", 0, 0), ("v2s", 0, 0, case)]}
        res, run = run_history(ctx, hist)
        n += 1
        if res:
            ctx.report(hist, [("chat-grid:" + sig, msg) for sig, msg in res])
    ctx.bulk(n, n, {"chat_grid": n}, {"chat_grid": "ChatFromSimulator text x ChatType x SourceType; ChatFromViewer channels"})


def run_shard(ctx, shard):
    if shard["kind"] == "chat_grid":
        return _chat_grid(ctx)
    if shard["kind"] == "hist":
        def body(hist):
            res, run = run_history(ctx, hist)
            ctx.case(hist, nontrivial=run.nontrivial, classes=[])
            return res
        hyp_run(ctx, histories(shard["maxlen"]), body, shard["n"], shrink_seconds=25.0)
    else:
        _every_name(ctx, shard["names"], shard["reps"])


def replay(ctx, case):
    if isinstance(case, list):       # every_name case: list of message cases
        name = case[0]["name"]
        evs = [("ucc", 0, 0)]
        for c in case:
            evs.append(("v2s", 0, 0, c))
            evs.append(("s2v", 0, 0, c) if name not in UDP_BANNED else ("fault", "banned_in", 0, 0, c, 1))
        case = {"viewers": 1, "regions": 1, "deferred": True, "events": evs}
    res, run = run_history(None, case)
    return res
