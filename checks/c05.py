"""C05 - proxied circuit: acknowledgements stay truthful under injection, drops, resends."""
import asyncio
import datetime as real_dt
import itertools
import types
from collections import Counter

from hypothesis import strategies as st

import hippolyzer.lib.base.message.circuit as base_circuit
from hippolyzer.lib.base.message.message import Message, Block
from hippolyzer.lib.base.message.msgtypes import PacketFlags
from hippolyzer.lib.base.network.transport import Direction
from hippolyzer.lib.base.message.udpserializer import UDPMessageSerializer
from hippolyzer.lib.base.message.udpdeserializer import UDPMessageDeserializer
from hippolyzer.lib.proxy.circuit import ProxiedCircuit

from vlib.runner import hyp_run

PROPERTY = "C05"
LEVEL = "exploration"
RULE = ("event sequences over a real ProxiedCircuit with a harness-owned clock: endpoint V/S sends a new (un)reliable packet "
        "with appended acks chosen from what it has been shown (none / all outstanding / oldest / newest-injected+newest-real), "
        "sends a PacketAck (body and optionally appended acks, incl. bodies naming only injected packets), retransmits, the "
        "proxy injects (un)reliable either way, drops the packet it is forwarding (with piggy-backed acks, reliable or not), "
        "clock advances (3.1 s / 1 s / fractions / a day) followed by resend_unacked(), the retransmission interval itself set to 3 s, 2.5 s, 1.25 s or 0.4 s.  Every emission is compared with a two-endpoint reference "
        "model after every event.  Exhaustive to a depth bound over 17 concrete events, Hypothesis walks beyond.  "
        "Non-trivial = history with an injection followed by an ack or a drop carrying acks; distinct by event sequence.")
ASSUMPTIONS = [
    "the harness calls collect_acks() before forwarding or dropping, exactly as handle_proxied_packet does, and owns the clock "
    "(circuit module's `dt` replaced by a shim); the asyncio sleep loop that calls resend_unacked() in production is not exercised",
    "endpoints only acknowledge wire IDs they have actually been shown; injection windows are the default size (no eviction within a history)",
    "a dropped PacketAck's body is not covered by the property (only piggy-backed acks of dropped packets are), so drops are applied to ordinary packets",
]
EXHAUSTIVE_PARTS = {"quick": ["all sequences of 19 concrete events to depth 6"], "thorough": ["all sequences of 19 concrete events to depth 7"]}
FLOORS = {"quick": {"h_nontrivial": 3000, "ev_tick": 2000, "inj_completed": 500, "inj_timed_out": 8, "acks_for_injected_filtered": 500}}
MANIFEST = {
    "text": "Bounded-exhaustive enumeration of event sequences plus long random walks on the real proxied circuit, each emission "
            "and each completion future compared after every step with an abstract two-endpoint model (who sent what, who was "
            "shown what, what was truly acknowledged, which injected packets are outstanding and how often they were sent).",
    "note": "Depth-bounded (6 quick / 7 thorough) for the exhaustive part; timers are driven by the harness clock, not by asyncio sleeps.",
    "technique": "bounded exhaustive + Hypothesis random walks of event histories against a reference model with a fake clock",
}

V, S = "V", "S"
DIR_FROM = {V: Direction.OUT, S: Direction.IN}
OTHER = {V: S, S: V}
TRIES = 10
INTERVAL = 3.0


class Clock:
    def __init__(self):
        self.t = real_dt.datetime(2020, 1, 1)

    def advance(self, s):
        self.t += real_dt.timedelta(seconds=s)


_CLOCK = Clock()


class _DT:
    @staticmethod
    def now():
        return _CLOCK.t


base_circuit.dt = types.SimpleNamespace(datetime=_DT, timedelta=real_dt.timedelta)
_LOOP = None


def _ensure_loop():
    global _LOOP
    if _LOOP is None:
        _LOOP = asyncio.new_event_loop()
        asyncio.set_event_loop(_LOOP)
    return _LOOP


class RecCircuit(ProxiedCircuit):
    def __init__(self):
        super().__init__(("127.0.0.1", 1), ("10.0.0.1", 2), None)
        self.emitted = []

    def _send_prepared_message(self, message, transport=None):
        body = None
        if message.name == "PacketAck":
            body = tuple(b["ID"] for b in message["Packets"])
        self.emitted.append({
            "dir": message.direction, "pid": message.packet_id, "name": message.name,
            "reliable": bool(message.send_flags & PacketFlags.RELIABLE), "resent": bool(message.send_flags & PacketFlags.RESENT),
            "ackflag": bool(message.send_flags & PacketFlags.ACK), "acks": tuple(message.acks), "body": body,
            "synthetic": bool(message.synthetic),
            "oldest": message["PingID"]["OldestUnacked"] if message.name == "StartPingCheck" else None,
        })


class DirModel:
    """one direction of the circuit (sender's own IDs -> wire IDs), unbounded memory"""

    def __init__(self):
        self.I = []          # wire ids used by the proxy for its own packets
        self.max_wire = 0

    def eff(self, o):
        s = set(self.I)
        w = k = 0
        while k < o:
            w += 1
            if w not in s:
                k += 1
        return w

    def orig(self, w):
        return w - sum(1 for i in self.I if i < w)


SER = UDPMessageSerializer()
DESER = UDPMessageDeserializer()


class Harness:
    def __init__(self, wire=False):
        _ensure_loop()
        self.c = RecCircuit()
        self.wire = wire
        self.next_id = {V: 1, S: 1}
        self.sent = {V: {}, S: {}}            # own id -> {"reliable":bool}
        self.dirs = {V: DirModel(), S: DirModel()}     # keyed by SENDER side
        self.shown = {V: [], S: []}           # packets delivered to side: dict(wire, kind real/injected, reliable)
        self.acked_by = {V: set(), S: set()}
        self.inj = {}                         # (toward side, wire id) -> dict(tx, last, tries_left, state, future)
        self.trace = []
        self.flags = set()
        self.first_wire = {}                  # sender side -> {own id: wire id it was first translated to}

    # -- helpers --
    def _pick_acks(self, side, mode):
        shown = self.shown[side]
        if mode == "none" or not shown:
            return []
        if mode == "all":
            out = [p["wire"] for p in shown if p["reliable"] and p["wire"] not in self.acked_by[side]][:6]
        elif mode == "oldest":
            out = [p["wire"] for p in shown if p["reliable"] and p["wire"] not in self.acked_by[side]][:1]
        elif mode == "injonly":
            out = [p["wire"] for p in shown if p["kind"] == "injected" and p["reliable"]][-2:]
        elif mode == "realonly":
            out = [p["wire"] for p in shown if p["kind"] == "real" and p["reliable"]][-2:]
        else:  # mix: newest injected + newest real
            inj = [p["wire"] for p in shown if p["kind"] == "injected"][-1:]
            real = [p["wire"] for p in shown if p["kind"] == "real"][-1:]
            out = inj + real
        return out

    def _translate(self, side, wires):
        """acks emitted by `side` for wire ids it was shown -> what the other side must be told (its own ids)"""
        dm = self.dirs[OTHER[side]]
        out = []
        for w in wires:
            if w in dm.I:
                self.flags.add("acks_for_injected_filtered")
                continue
            out.append(dm.orig(w))
        return out

    def _mk(self, side, name, pid, reliable, acks, body=None, resent=False):
        flags = (PacketFlags.RELIABLE if reliable else 0) | (PacketFlags.RESENT if resent else 0) | (PacketFlags.ACK if acks else 0)
        if name == "PacketAck":
            blocks = [Block("Packets", ID=i) for i in body]
        else:
            blocks = [Block("AgentData", fill_missing=True), Block("ChatData", fill_missing=True)] if name == "ChatFromViewer" \
                else [Block("ChatData", fill_missing=True)]
        msg = Message(name, *blocks, packet_id=pid, flags=int(flags), acks=tuple(acks), direction=DIR_FROM[side])
        if self.wire:
            data = SER.serialize(msg)
            msg = DESER.deserialize(bytes(data))
            msg.direction = DIR_FROM[side]
        msg.synthetic = False
        return msg

    def _note_acked(self, side, wires):
        """side acknowledged these wire ids: proxy-injected reliable ones complete"""
        for w in wires:
            self.acked_by[side].add(w)
            rec = self.inj.get((side, w))
            if rec and rec["state"] == "pending":
                rec["state"] = "acked"
                self.flags.add("inj_completed")

    # -- events: return list of violations --
    def ev_send(self, side, reliable, ackmode, packetack=False, body_mode=None, drop=False, resend=False, retake=False, redrop=False):
        out = []
        dm = self.dirs[side]
        other = OTHER[side]
        if redrop:
            # the endpoint retransmits a reliable packet the proxy dropped before (its ack got lost), possibly with fresh
            # piggy-backed acks, and it is dropped again
            cands = [o for o, r in self.sent[side].items() if r["reliable"] and r.get("dropped")]
            if not cands:
                return None
            o = max(cands)
            reliable = True
            resend = True
            self.flags.add("redrop")
        elif resend:
            cands = [o for o, r in self.sent[side].items() if r["reliable"] and not r.get("dropped")]
            if not cands:
                return None
            o = max(cands)
            reliable = True
        else:
            o = self.next_id[side]
        acks = self._pick_acks(side, ackmode)
        body = None
        name = "ChatFromViewer" if side == V else "ChatFromSimulator"
        if packetack:
            body = self._pick_acks(side, body_mode)
            if not body:
                return None
            name = "PacketAck"
            reliable = False
        if ackmode != "none" and not acks:
            return None
        msg = self._mk(side, name, o, reliable, acks, body, resent=resend)
        if not resend and not redrop:
            self.next_id[side] = o + 1
            self.sent[side][o] = {"reliable": reliable}
        self.c.emitted.clear()
        # what handle_proxied_packet does
        self.c.collect_acks(msg)
        self._note_acked(side, list(acks) + list(body or []))
        exp_to = {V: Counter(), S: Counter()}
        required = []
        if drop:
            self.sent[side][o]["dropped"] = True
            try:
                self.c.drop_message(msg)
            except Exception as e:
                return [("drop:raises:%s" % type(e).__name__, "drop_message raised %r" % (e,))]
            if reliable:
                exp_to[side][o] += 1
            for a in self._translate(side, acks):
                exp_to[other][a] += 1
            if not (msg.dropped and msg.finalized):
                out.append(("drop:flags", "dropped message not marked dropped/finalized"))
        else:
            try:
                sent = self.c.send(msg)
            except Exception as e:
                return [("forward:raises:%s" % type(e).__name__, "forwarding raised %r" % (e,))]
            tr_acks = self._translate(side, acks)
            tr_body = self._translate(side, body or [])
            for a in tr_acks + tr_body:
                exp_to[other][a] += 1
            wire = dm.eff(o)
            if packetack and not tr_acks and not tr_body:
                # a PacketAck naming only injected packets must not be forwarded at all - but its ID has been translated: that wire ID is
                # taken, the proxy's own packets have to stay above it and the translation of that ID has to stay what it was
                dm.max_wire = max(dm.max_wire, wire)
                self.first_wire.setdefault(side, {})[o] = wire
            else:
                required.append({"dir": DIR_FROM[side], "pid": wire, "name": name, "reliable": reliable, "resent": resend})
                dm.max_wire = max(dm.max_wire, wire)
                self.first_wire.setdefault(side, {}).setdefault(o, wire)
                if not any(p["wire"] == wire for p in self.shown[other]):
                    self.shown[other].append({"wire": wire, "kind": "real", "reliable": reliable, "orig": o})
        out.extend(self._check_emissions(exp_to, required, allow_proxy_acks=side if drop else None))
        if retake and not out:
            # an addon drops the packet first and only then takes a copy and sends that on: the piggy-backed acks went out with
            # the drop already, the copy is a packet of the proxy's own and carries none
            try:
                copy = msg.take()
                self.c.emitted.clear()
                self.c.send(copy)
            except Exception as e:
                return [("retake:raises:%s" % type(e).__name__, "take()+send of a dropped packet raised %r" % (e,))]
            em = list(self.c.emitted)
            if len(em) != 1:
                return [("retake:emissions", "re-sending the taken copy produced %d emissions" % len(em))]
            e = em[0]
            if e["pid"] is None or e["pid"] <= dm.max_wire or e["pid"] in dm.I:
                out.append(("retake:id", "re-sent copy used id %r (highest seen %d)" % (e["pid"], dm.max_wire)))
            else:
                dm.I.append(e["pid"])
                dm.I.sort()
                dm.max_wire = e["pid"]
                self.shown[other].append({"wire": e["pid"], "kind": "injected", "reliable": reliable})
                if reliable:
                    # the copy of a reliable packet is a reliable packet of the proxy's own: retransmitted until acknowledged
                    info = self.c.unacked_reliable.get((DIR_FROM[side], e["pid"]))
                    if info is None:
                        out.append(("retake:not-tracked", "the re-sent copy of a reliable packet (wire id %d) is not tracked for retransmission" % e["pid"]))
                    else:
                        self.inj[(other, e["pid"])] = {"tx": 1, "last": _CLOCK.t, "tries_left": TRIES, "state": "pending", "future": info.completed}
            self.flags.add("retake")
            out.extend(self._check_emissions({V: Counter(), S: Counter()},
                                             [{"dir": DIR_FROM[side], "pid": e["pid"], "name": name, "reliable": reliable, "resent": False}],
                                             allow_proxy_acks=False))
        return out

    def ev_ping(self, side, which, ackmode="none"):
        """`side` sends a StartPingCheck naming one of its own packet IDs as its oldest unacknowledged one: the peer must be told
        the wire ID that packet travelled under (or an older still-unacknowledged packet of the proxy's own in that direction)"""
        dm = self.dirs[side]
        own = sorted(self.sent[side])
        if which == "oldest" and own:
            o = own[0]
        elif which == "newest" and own:
            o = own[-1]
        else:
            o = self.next_id[side]
        pid = self.next_id[side]
        self.next_id[side] = pid + 1
        self.sent[side][pid] = {"reliable": False}
        # (a keep-alive can carry piggy-backed acks like any other packet)
        acks = self._pick_acks(side, ackmode)
        if ackmode != "none" and not acks:
            del self.sent[side][pid]
            self.next_id[side] = pid
            return None
        msg = Message("StartPingCheck", Block("PingID", PingID=pid & 0xFF, OldestUnacked=o), packet_id=pid, flags=int(PacketFlags.ACK) if acks else 0,
                      acks=tuple(acks), direction=DIR_FROM[side])
        if self.wire:
            msg = DESER.deserialize(bytes(SER.serialize(msg)))
            msg.direction = DIR_FROM[side]
        msg.synthetic = False
        self.c.emitted.clear()
        self.c.collect_acks(msg)
        self._note_acked(side, list(acks))
        exp_to = {V: Counter(), S: Counter()}
        for a in self._translate(side, acks):
            exp_to[OTHER[side]][a] += 1
        try:
            self.c.send(msg)
        except Exception as e:
            return [("ping:raises:%s" % type(e).__name__, "forwarding StartPingCheck raised %r" % (e,))]
        wire = dm.eff(pid)
        dm.max_wire = max(dm.max_wire, wire)
        other = OTHER[side]
        self.shown[other].append({"wire": wire, "kind": "real", "reliable": False, "orig": pid})
        pending = [w for (t, w), rec in self.inj.items() if t == other and rec["state"] == "pending"]
        want = min([dm.eff(o)] + pending)
        out = []
        em = [e for e in self.c.emitted if e["name"] == "StartPingCheck"]
        if len(em) == 1 and em[0]["oldest"] != want:
            out.append(("ping:oldest-unacked", "StartPingCheck from %s naming its packet %d went out with OldestUnacked %r, that packet's wire id is %d "
                        "(proxy's own pending %r)" % (side, o, em[0]["oldest"], dm.eff(o), pending)))
        self.flags.add("ping")
        out.extend(self._check_emissions(exp_to,
                                         [{"dir": DIR_FROM[side], "pid": wire, "name": "StartPingCheck", "reliable": False, "resent": False}], allow_proxy_acks=None))
        return out

    def ev_inject(self, toward, reliable):
        sender = OTHER[toward]       # the direction is the one `sender`'s packets travel in
        dm = self.dirs[sender]
        name = "ChatFromSimulator" if toward == V else "ChatFromViewer"
        blocks = [Block("ChatData", fill_missing=True)] if toward == V else [Block("AgentData", fill_missing=True), Block("ChatData", fill_missing=True)]
        msg = Message(name, *blocks, direction=DIR_FROM[sender])
        self.c.emitted.clear()
        fut = None
        try:
            if reliable:
                fut = self.c.send_reliable(msg)
            else:
                self.c.send(msg)
        except Exception as e:
            return [("inject:raises:%s" % type(e).__name__, "inject raised %r" % (e,))]
        out = []
        em = [e for e in self.c.emitted]
        if len(em) != 1:
            return [("inject:emissions", "injection produced %d emissions" % len(em))]
        e = em[0]
        if e["pid"] is None or e["pid"] <= dm.max_wire or e["pid"] in dm.I:
            out.append(("inject:id", "injected id %r not above highest wire id %d" % (e["pid"], dm.max_wire)))
        if e["reliable"] != reliable or e["dir"] != DIR_FROM[sender]:
            out.append(("inject:flags", "injected packet flags/direction wrong: %r" % (e,)))
        dm.I.append(e["pid"])
        dm.I.sort()
        dm.max_wire = max(dm.max_wire, e["pid"])
        self.shown[toward].append({"wire": e["pid"], "kind": "injected", "reliable": reliable})
        if reliable:
            self.inj[(toward, e["pid"])] = {"tx": 1, "last": _CLOCK.t, "tries_left": TRIES, "state": "pending", "future": fut}
        out.extend(self._check_futures())
        return out

    def ev_tick(self, seconds):
        _CLOCK.advance(seconds)
        self.c.emitted.clear()
        try:
            self.c.resend_unacked()
        except Exception as e:
            return [("tick:raises:%s" % type(e).__name__, "resend_unacked raised %r" % (e,))]
        required = []
        for (toward, wire), rec in self.inj.items():
            if rec["state"] != "pending":
                continue
            if (_CLOCK.t - rec["last"]).total_seconds() < getattr(self, "interval", INTERVAL):
                continue
            rec["tries_left"] -= 1
            if rec["tries_left"] == 0:
                rec["state"] = "timed_out"
                self.flags.add("inj_timed_out")
                continue
            rec["last"] = _CLOCK.t
            rec["tx"] += 1
            required.append({"dir": DIR_FROM[OTHER[toward]], "pid": wire, "name": None, "reliable": True, "resent": True})
        if required:
            self.flags.add("inj_retransmitted")
        return self._check_emissions({V: Counter(), S: Counter()}, required, allow_proxy_acks=False)

    # -- oracle --
    def _check_emissions(self, exp_to, required, allow_proxy_acks):
        out = []
        em = list(self.c.emitted)
        got_to = {V: Counter(), S: Counter()}
        unmatched = list(required)
        for e in em:
            toward = V if e["dir"] == Direction.IN else S
            for a in e["acks"]:
                got_to[toward][a] += 1
            for a in (e["body"] or ()):
                got_to[toward][a] += 1
            if e["ackflag"] != bool(e["acks"]):
                out.append(("emit:ack-flag", "ACK flag %s with acks %r" % (e["ackflag"], e["acks"])))
            if e["name"] == "PacketAck" and not e["body"]:
                out.append(("emit:empty-packetack", "an empty PacketAck was put on the wire: %r" % (e,)))
            m = next((r for r in unmatched if r["dir"] == e["dir"] and r["pid"] == e["pid"]
                      and (r["name"] is None or r["name"] == e["name"])), None)
            if m is not None:
                unmatched.remove(m)
                if m["reliable"] != e["reliable"] or m["resent"] != e["resent"]:
                    out.append(("emit:flags", "packet %s flags reliable=%s resent=%s, expected %s/%s" % (
                        e["pid"], e["reliable"], e["resent"], m["reliable"], m["resent"])))
            elif e["name"] == "PacketAck" and e["synthetic"] and allow_proxy_acks is not False:
                # proxy-made PacketAck (drop handling).  The one going back to the dropped packet's sender uses a
                # fresh id, i.e. it is an injection in that direction; the one carrying the piggy-backed acks onward
                # re-uses the dropped packet's own id and is not.
                sender = S if toward == V else V
                dm = self.dirs[sender]
                if toward == allow_proxy_acks:
                    if e["pid"] is None or e["pid"] <= dm.max_wire or e["pid"] in dm.I:
                        out.append(("drop:ack-id", "proxy ack for a dropped packet used id %r (highest seen %d)" % (e["pid"], dm.max_wire)))
                    else:
                        dm.I.append(e["pid"])
                        dm.I.sort()
                        dm.max_wire = e["pid"]
                        self.shown[toward].append({"wire": e["pid"], "kind": "injected", "reliable": False})
            else:
                out.append(("emit:unexpected", "unexpected emission %r" % (e,)))
        for r in unmatched:
            out.append(("emit:missing", "expected emission not seen: %r (emitted: %r)" % (r, [(e["dir"].name, e["pid"], e["name"]) for e in em])))
        for side in (V, S):
            if got_to[side] != exp_to[side]:
                extra = got_to[side] - exp_to[side]
                missing = exp_to[side] - got_to[side]
                own = set(self.sent[side])
                kind = []
                if extra:
                    kind.append("spurious" if all(a in own for a in extra) else "foreign-id")
                if missing:
                    kind.append("lost")
                out.append(("acks:%s" % "+".join(kind), "acks delivered to %s: %r, expected %r" % (
                    side, dict(got_to[side]), dict(exp_to[side]))))
        out.extend(self._check_futures())
        return out

    def _check_futures(self):
        out = []
        for (toward, wire), rec in self.inj.items():
            f = rec["future"]
            st_ = rec["state"]
            if st_ == "pending":
                if f.done():
                    out.append(("future:early", "completion of injected %s/%d fired while unacked and within budget" % (toward, wire)))
            elif st_ == "acked":
                if not f.done() or f.cancelled() or f.exception() is not None:
                    out.append(("future:not-completed-on-ack", "injected %s/%d was acked but its future is %r" % (toward, wire, f)))
            elif st_ == "timed_out":
                if not f.done() or f.cancelled() or not isinstance(f.exception(), TimeoutError):
                    out.append(("future:no-timeout", "injected %s/%d ran out of tries but its future is %r" % (toward, wire, f)))
            key = (DIR_FROM[OTHER[toward]], wire)
            if (key in self.c.unacked_reliable) != (st_ == "pending"):
                out.append(("unacked-table", "unacked table %s entry for %s/%d in state %s" % (
                    "has" if key in self.c.unacked_reliable else "lacks", toward, wire, st_)))
        return out

    def step(self, ev):
        kind = ev[0]
        if kind == "send":
            r = self.ev_send(ev[1], ev[2], ev[3])
        elif kind == "pack":
            r = self.ev_send(ev[1], False, ev[3], packetack=True, body_mode=ev[2])
        elif kind == "drop":
            r = self.ev_send(ev[1], ev[2], ev[3], drop=True)
        elif kind == "zero_based":
            # both endpoints number their packets from 0 (as hippolyzer's own client does) instead of 1
            if self.sent[V] or self.sent[S] or self.inj:
                return None
            self.next_id = {V: 0, S: 0}
            self.flags.add("zero_based_ids")
            r = []
        elif kind == "redrop":
            r = self.ev_send(ev[1], True, ev[2], drop=True, redrop=True)
        elif kind == "ping":
            r = self.ev_ping(ev[1], ev[2], ev[3] if len(ev) > 3 else "none")
        elif kind == "retake":
            r = self.ev_send(ev[1], bool(ev[3]) if len(ev) > 3 else False, ev[2], drop=True, retake=True)
        elif kind == "resend":
            r = self.ev_send(ev[1], True, "none", resend=True)
        elif kind == "inject":
            r = self.ev_inject(ev[1], ev[2])
        elif kind == "tick":
            r = self.ev_tick(ev[1])
        elif kind == "cadence":
            # the retransmission interval is configuration: whatever it is set to is the cadence
            self.interval = float(ev[1])
            self.c.resend_every = float(ev[1])
            self.flags.add("cadence_set")
            r = []
        else:
            raise ValueError(ev)
        if r is not None:
            self.trace.append(ev)
            if not r:
                # the translation of an ID is stable: whatever has happened since, an endpoint ID still maps to the wire ID it first got
                for side, seen in self.first_wire.items():
                    tracker = self.c.out_injections if DIR_FROM[side] == Direction.OUT else self.c.in_injections
                    for o in list(seen)[-4:]:
                        got = tracker.get_effective_id(o)
                        if got != seen[o]:
                            r = [("ids:translation-unstable", "packet %d of %s first went out (or was translated) as wire id %d, now translates to %d" % (
                                o, side, seen[o], got))]
                            break
        return r

    def classes(self):
        cls = set(self.flags)
        kinds = [e[0] for e in self.trace]
        if "inject" in kinds:
            i = kinds.index("inject")
            later = self.trace[i + 1:]
            if any((e[0] in ("send", "drop") and e[3] != "none") or e[0] == "pack" for e in later):
                cls.add("h_nontrivial")
        for k in set(kinds):
            cls.add("ev_" + k)
        return sorted(cls)

    def teardown(self):
        for rec in self.inj.values():
            f = rec["future"]
            if f.done() and not f.cancelled():
                f.exception()     # mark retrieved


ALPHABET = [
    ("send", V, True, "none"), ("send", S, True, "none"),
    ("send", V, False, "all"), ("send", S, False, "all"),
    ("send", V, True, "mix"), ("send", S, True, "mix"),
    ("pack", V, "all", "none"), ("pack", S, "all", "none"),
    ("pack", V, "injonly", "realonly"), ("pack", S, "injonly", "realonly"),
    ("inject", V, True), ("inject", S, True), ("inject", S, False),
    ("drop", V, True, "all"), ("drop", S, True, "mix"),
    ("tick", 3.1), ("resend", V), ("retake", S, "mix"), ("tick", 1.0),
]


def run_sequence(events, wire=False):
    h = Harness(wire=wire)
    res = []
    for ev in events:
        r = h.step(tuple(ev))
        if r is None:
            h.teardown()
            return None, h
        res.extend(r)
        if res:
            break
    h.teardown()
    return res, h


def shards(tier):
    th = tier == "thorough"
    depth = 7 if th else 6
    sh = []
    for a in range(len(ALPHABET)):
        for b in range(len(ALPHABET)):
            sh.append({"kind": "enum", "prefix": [a, b], "depth": depth})
    for i in range(16):
        sh.append({"kind": "walk", "n": 1200 if th else 150, "maxsteps": 200 if th else 60})
    sh.append({"kind": "budget"})
    sh.append({"kind": "proxy_path"})
    return sh


def _enum(ctx, prefix, depth):
    n = nt = 0
    cls = Counter()
    sample = None

    def rec(seq):
        nonlocal n, nt, sample
        res, h = run_sequence([ALPHABET[i] for i in seq])
        if res is None:
            return
        n += 1
        c = h.classes()
        cls.update(c)
        if "h_nontrivial" in c:
            nt += 1
            if sample is None and len(seq) == depth:
                sample = [ALPHABET[i] for i in seq]
        if res:
            ctx.report({"events": [list(ALPHABET[i]) for i in seq], "wire": False}, res)
            return      # do not extend a history that already violated
        if len(seq) < depth:
            for i in range(len(ALPHABET)):
                rec(seq + [i])
    rec(list(prefix))
    ctx.bulk(n, nt, dict(cls), sample)


EV = st.one_of(
    st.tuples(st.just("send"), st.sampled_from([V, S]), st.booleans(), st.sampled_from(["none", "all", "oldest", "mix", "none"])),
    st.tuples(st.just("pack"), st.sampled_from([V, S]), st.sampled_from(["all", "oldest", "mix", "injonly", "realonly"]),
              st.sampled_from(["none", "none", "realonly", "mix", "injonly"])),
    st.tuples(st.just("drop"), st.sampled_from([V, S]), st.booleans(), st.sampled_from(["none", "all", "mix"])),
    st.tuples(st.just("resend"), st.sampled_from([V, S])),
    st.tuples(st.just("retake"), st.sampled_from([V, S]), st.sampled_from(["all", "mix", "oldest", "none"]), st.booleans()),
    st.tuples(st.just("redrop"), st.sampled_from([V, S]), st.sampled_from(["none", "all", "mix"])),
    st.tuples(st.just("ping"), st.sampled_from([V, S]), st.sampled_from(["oldest", "newest", "next"])),
    st.tuples(st.just("ping"), st.sampled_from([V, S]), st.sampled_from(["oldest", "newest", "next"]), st.sampled_from(["all", "mix", "realonly"])),
    st.tuples(st.just("inject"), st.sampled_from([V, S]), st.booleans()),
    st.tuples(st.just("inject"), st.sampled_from([V, S]), st.just(True)),
    st.tuples(st.just("tick"), st.sampled_from([3.1, 3.1, 1.0, 6.5, 3.0, 1.0, 0.5, 1.5])),
    st.tuples(st.just("tick"), st.sampled_from([2.6, 2.5, 0.4, 86401.0, 86403.5, 3.1])),
    st.tuples(st.just("cadence"), st.sampled_from([2.5, 0.4, 1.25, 3.0, 2.5])),
)
WALK = st.tuples(st.booleans(), st.lists(EV, min_size=3, max_size=200), st.integers(0, 2)).map(
    lambda t: (t[0], ([("zero_based",)] if t[2] == 0 else []) + list(t[1])))


def _walk_body(ctx, maxsteps):
    def body(case):
        wire, evs = case
        h = Harness(wire=wire)
        res = []
        for ev in evs[:maxsteps]:
            r = h.step(ev)
            if r is None:
                continue
            res.extend(r)
            if res:
                break
        h.teardown()
        ctx.case({"events": [list(e) for e in h.trace], "wire": wire}, nontrivial="h_nontrivial" in h.classes(),
                 classes=h.classes() + ["walk"])
        return res
    return body


def _budget(ctx):
    """the retry budget of an injected reliable packet, tick by tick, for several tick sizes"""
    for seconds, cadence in ((3.1, None), (3.0, None), (5.0, None), (100.0, None), (2.6, 2.5), (2.5, 2.5), (0.5, 0.4), (1.0, 2.5), (86401.0, None),
                             (86402.0, 2.5)):
        for toward in (V, S):
            evs = ([("cadence", cadence)] if cadence else []) + [("inject", toward, True)] + [("tick", seconds)] * 40 + [("send", toward, False, "all")]
            res, h = run_sequence(evs)
            ctx.bulk(1, 1, {"budget_runs": 1, "inj_timed_out": 1 if "inj_timed_out" in h.flags else 0})
            if res:
                ctx.report({"events": [list(e) for e in evs], "wire": False}, res)
            rec = list(h.inj.values())[0]
            if rec["tx"] != TRIES:
                ctx.fail("budget:model", "model transmitted %d times" % rec["tx"], {"events": [list(e) for e in evs], "wire": False})


def _proxy_path(ctx):
    """the same ack bookkeeping one level up: through InterceptingLLUDPProxyProtocol.handle_proxied_packet with addons that claim,
    drop, take or fail on the very message that carries the ack for a reliable packet of the proxy's own (C07's harness; only its
    bookkeeping / ack verdicts are used here)"""
    from checks import c07
    n = 0
    for b in c07.B_LLUDP:
        for sub in ("absent", "take_async", "raise"):
            for stream in (["s2v_rel_acks", "v2s_rel"], ["v2s_rel", "s2v_rel_acks"]):
                prog = {"addons": [{"lludp": b, "session_sub": sub}], "messages": stream}
                res, _ = c07.run_program(prog)
                n += 1
                res = [(sig, msg) for sig, msg in res if sig.startswith(("bookkeeping:", "drop-ack-count"))]
                if res:
                    ctx.report({"proxy_path": prog}, res)
    ctx.bulk(n, n, {"proxy_path_programs": n}, {"proxy_path": {"addons": [{"lludp": "true"}], "messages": ["s2v_rel_acks", "v2s_rel"]}})


def run_shard(ctx, shard):
    if shard["kind"] == "proxy_path":
        _proxy_path(ctx)
    elif shard["kind"] == "enum":
        _enum(ctx, shard["prefix"], shard["depth"])
    elif shard["kind"] == "walk":
        hyp_run(ctx, WALK, _walk_body(ctx, shard["maxsteps"]), shard["n"])
    else:
        _budget(ctx)


def replay(ctx, case):
    if isinstance(case, dict) and "proxy_path" in case:
        from checks import c07
        res, _ = c07.run_program(case["proxy_path"])
        return [(sig, msg) for sig, msg in res if sig.startswith(("bookkeeping:", "drop-ack-count"))]
    if not isinstance(case, dict):
        case = {"wire": case[0], "events": case[1]}
    h = Harness(wire=case.get("wire", False))
    res = []
    for ev in case["events"]:
        r = h.step(tuple(ev))
        if r is None:
            continue
        res.extend(r)
    h.teardown()
    return res
