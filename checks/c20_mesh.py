"""C20 part 3 - mesh assets, wire-first: segments are generated as LLSD with raw little-endian u16 / u8 binary fields, packed by
a reference container writer (zip_llsd per segment + header with offsets), and the library must decode the documented values,
re-serialise to a container whose segments carry byte-identical binary fields, and be idempotent from there on."""
import datetime as dt
import struct

import numpy as np
from hypothesis import strategies as st

from hippolyzer.lib.base import llsd
from hippolyzer.lib.base import serialization as se
from hippolyzer.lib.base.datatypes import UUID
from hippolyzer.lib.base.llsd import zip_llsd, unzip_llsd
from hippolyzer.lib.base.mesh import LLMeshSerializer, MeshAsset

U16 = st.one_of(st.integers(0, 65535), st.sampled_from([0, 1, 32767, 32768, 65534, 65535]))
F = st.floats(min_value=-64.0, max_value=64.0, width=32)
LODS = ["lowest_lod", "low_lod", "medium_lod", "high_lod", "physics_mesh"]


def _u16s(draw, n):
    return struct.pack("<%dH" % n, *[draw(U16) for _ in range(n)])


@st.composite
def material(draw):
    if draw(st.integers(0, 9)) == 0:
        return {"NoGeometry": True}
    n = draw(st.integers(0, 5))
    m = {"Position": _u16s(draw, 3 * n), "PositionDomain": {"Min": [draw(F) for _ in range(3)], "Max": [draw(F) for _ in range(3)]},
         "TexCoord0": _u16s(draw, 2 * n), "TexCoord0Domain": {"Min": [draw(F), draw(F)], "Max": [draw(F), draw(F)]}}
    if draw(st.booleans()):
        m["Normal"] = _u16s(draw, 3 * n)
    t = draw(st.integers(0, 4))
    m["TriangleList"] = struct.pack("<%dH" % (3 * t), *[draw(st.integers(0, max(n - 1, 0))) for _ in range(3 * t)])
    if draw(st.booleans()):
        w = bytearray()
        for _ in range(n):
            k = draw(st.sampled_from([0, 1, 2, 3, 4, 4]))
            for _ in range(k):
                w += struct.pack("<BH", draw(st.integers(0, 254)), draw(U16))
            if k < 4:
                w.append(0xFF)
        m["Weights"] = bytes(w)
    return m


@st.composite
def mesh_desc(draw):
    segs = {}
    for name in LODS:
        if draw(st.integers(0, 2)) > 0:
            # a LOD that is present with no materials at all is legal LLSD and must survive like any other
            segs[name] = draw(st.lists(material(), min_size=0 if draw(st.integers(0, 7)) == 0 else 1, max_size=3))
    if draw(st.booleans()):
        k = draw(st.integers(0, 4))
        c = {"Min": [draw(F) for _ in range(3)], "Max": [draw(F) for _ in range(3)], "BoundingVerts": _u16s(draw, 3 * k)}
        if draw(st.booleans()):
            hulls = draw(st.lists(st.integers(1, 4), max_size=3))
            c["HullList"] = bytes(hulls)
            c["Positions"] = _u16s(draw, 3 * sum(hulls))
        segs["physics_convex"] = c
    if draw(st.booleans()):
        nj = draw(st.integers(0, 3))
        segs["skin"] = {"joint_names": ["mJoint%d" % i for i in range(nj)], "bind_shape_matrix": [draw(F) for _ in range(16)],
                        "inverse_bind_matrix": [[draw(F) for _ in range(16)] for _ in range(nj)], "pelvis_offset": draw(F)}
        if draw(st.booleans()):
            segs["skin"]["alt_inverse_bind_matrix"] = [[draw(F) for _ in range(16)] for _ in range(nj)]
            segs["skin"]["lock_scale_if_joint_position"] = draw(st.booleans())
    if draw(st.integers(0, 3)) == 0:
        segs["physics_havok"] = {"WeldingData": draw(st.binary(max_size=12)), "MOPP": {"BuildType": draw(st.integers(0, 3)), "MoppData": draw(st.binary(max_size=8))}}
    if draw(st.integers(0, 3)) == 0:
        segs["future_segment"] = {"Anything": [draw(st.integers(0, 99)), draw(st.binary(max_size=6))]}
    if draw(st.integers(0, 7)) == 0:
        segs["empty_future_segment"] = draw(st.sampled_from([{}, []]))
    header = {"version": draw(st.integers(0, 3))}
    if draw(st.booleans()):
        header["creator"] = UUID(int=draw(st.integers(0, 2 ** 128 - 1)))
    if draw(st.booleans()):
        header["date"] = dt.datetime(2000, 1, 1, tzinfo=dt.timezone.utc) + dt.timedelta(seconds=draw(st.integers(0, 10 ** 9)))
    if draw(st.booleans()):
        header["physics_cost_data"] = {"hull": draw(F), "mesh_triangles": draw(st.integers(0, 1000))}
    extra = {}
    for name in segs:
        if draw(st.integers(0, 3)) == 0:
            extra[name] = {"mesh_triangles": draw(st.integers(0, 100))} if name.endswith("_lod") else {"hash": draw(st.binary(min_size=16, max_size=16))}
    order = draw(st.permutations(sorted(segs)))
    return {"header": header, "extra": extra, "segments": segs, "order": list(order), "endian": draw(st.sampled_from(["!", "<"])),
            "pad": draw(st.integers(0, 2))}


def ref_container(d) -> bytes:
    body = bytearray()
    header = dict(d["header"])
    for name in d["order"]:
        body += b"\x00" * d["pad"]
        z = zip_llsd(d["segments"][name])
        h = dict(d["extra"].get(name, {}))
        h["offset"] = len(body)
        h["size"] = len(z)
        header[name] = h
        body += z
    return llsd.format_binary(header, with_header=False) + bytes(body)


def split_container(buf: bytes):
    """reference reader of the container layer only: header LLSD + raw zipped segments"""
    r = se.BufferReader("<", buf)
    header = r.read(se.BinaryLLSD)
    start = r.tell()
    segs = {}
    spans = []
    for k, v in header.items():
        if isinstance(v, dict) and "offset" in v and "size" in v:
            a, b = start + v["offset"], start + v["offset"] + v["size"]
            if b > len(buf):
                raise ValueError("segment %s passes EOF" % k)
            spans.append((a, b, k))
            segs[k] = unzip_llsd(buf[a:b])
    return header, segs, sorted(spans), start


def _np_eq(a, b):
    if isinstance(a, np.ndarray) or isinstance(b, np.ndarray):
        return np.array_equal(np.asarray(a), np.asarray(b))
    if isinstance(a, dict) and isinstance(b, dict):
        return a.keys() == b.keys() and all(_np_eq(a[k], b[k]) for k in a)
    if isinstance(a, (list, tuple)) and isinstance(b, (list, tuple)):
        return len(a) == len(b) and all(_np_eq(x, y) for x, y in zip(a, b))
    if isinstance(a, float) and isinstance(b, float):
        return a == b or (a != a and b != b)
    return a == b


def _check_material(name, i, raw, parsed, out):
    def arr(b, n):
        return np.frombuffer(b, dtype="<u2").reshape((-1, n)).astype(np.float64)
    for key, n, lo, hi in (("Position", 3, 0.0, 1.0), ("TexCoord0", 2, 0.0, 1.0), ("Normal", 3, -1.0, 1.0)):
        if key in raw:
            want = arr(raw[key], n) / 65535.0 * (hi - lo) + lo
            got = np.array([tuple(v) for v in parsed[key]], dtype=np.float64).reshape((-1, n))
            if got.shape != want.shape or (want.size and np.max(np.abs(got - want)) > 1e-9):
                out.append(("mesh:decode:%s" % key, "%s[%d].%s decoded %r, raw says %r" % (name, i, key, got.tolist()[:3], want.tolist()[:3])))
    if "TriangleList" in raw:
        want = np.frombuffer(raw["TriangleList"], dtype="<u2").reshape((-1, 3)).tolist()
        if [list(t) for t in parsed["TriangleList"]] != want:
            out.append(("mesh:decode:TriangleList", "%s[%d] triangles %r, raw says %r" % (name, i, parsed["TriangleList"], want)))
    if "Weights" in raw:
        want = []
        b = raw["Weights"]
        p = 0
        while p < len(b):
            v = []
            for _ in range(4):
                if b[p] == 0xFF:
                    p += 1
                    break
                v.append((b[p], struct.unpack_from("<H", b, p + 1)[0] / 65535.0))
                p += 3
            want.append(v)
        got = [[(int(x[0]), float(x[1])) for x in v] for v in parsed["Weights"]]
        if got != want:
            out.append(("mesh:decode:Weights", "%s[%d] weights %r, raw says %r" % (name, i, got[:4], want[:4])))


def laws(d):
    out = []
    w = ref_container(d)
    ser = LLMeshSerializer()
    try:
        mesh: MeshAsset = se.BufferReader(d["endian"], w).read(ser)
    except Exception as e:
        return [("mesh:parse-raised:%s" % type(e).__name__, "%r" % (e,))]
    if set(mesh.segments) != set(d["segments"]):
        out.append(("mesh:decode:segment-set", "segments %r, container has %r" % (sorted(mesh.segments), sorted(d["segments"]))))
        return out
    for name, raw in d["segments"].items():
        parsed = mesh.segments[name]
        if name in LODS:
            if len(parsed) != len(raw):
                out.append(("mesh:decode:material-count", "%s has %d materials, wire %d" % (name, len(parsed), len(raw))))
                continue
            for i, (rm, pm) in enumerate(zip(raw, parsed)):
                if set(rm) != set(pm):
                    out.append(("mesh:decode:material-keys", "%s[%d] keys %r vs %r" % (name, i, sorted(pm), sorted(rm))))
                    continue
                _check_material(name, i, rm, pm, out)
                for k in rm:
                    if k.endswith("Domain") or k == "NoGeometry":
                        if pm[k] != rm[k]:
                            out.append(("mesh:decode:%s" % k, "%s[%d].%s %r vs %r" % (name, i, k, pm[k], rm[k])))
        elif name == "physics_convex":
            for key in ("BoundingVerts", "Positions"):
                if key in raw:
                    want = (np.frombuffer(raw[key], dtype="<u2").reshape((-1, 3)).astype(np.float64) / 65535.0 * 2.0 - 1.0)
                    got = np.array([tuple(v) for v in parsed[key]], dtype=np.float64).reshape((-1, 3))
                    # the -1..1 range has no raw value for 0; the two nearest decode to (+-)0
                    bad = (np.abs(got - want) > 1e-9) & ~((np.abs(want) < 2.0 / 65535) & (got == 0.0)) if want.size else np.zeros(0, bool)
                    if got.shape != want.shape or bad.any():
                        out.append(("mesh:decode:convex-%s" % key, "%s decoded %r, raw says %r" % (key, got.tolist()[:3], want.tolist()[:3])))
            if "HullList" in raw and list(parsed["HullList"]) != list(raw["HullList"]):
                out.append(("mesh:decode:HullList", "%r vs %r" % (parsed["HullList"], list(raw["HullList"]))))
            for k in ("Min", "Max"):
                if parsed[k] != raw[k]:
                    out.append(("mesh:decode:convex-domain", "%s %r vs %r" % (k, parsed[k], raw[k])))
        else:
            if not _np_eq(parsed, raw):
                out.append(("mesh:decode:opaque-segment", "%s decoded %r, wire %r" % (name, parsed, raw)))
    for k, v in d["header"].items():
        if mesh.header.get(k) != v:
            out.append(("mesh:decode:header-%s" % k, "header %s %r, wire %r" % (k, mesh.header.get(k), v)))
    # serialise back
    try:
        wr = se.BufferWriter(d["endian"])
        wr.write(ser, mesh)
        w2 = wr.copy_buffer()
    except Exception as e:
        out.append(("mesh:serialise-raised:%s" % type(e).__name__, "%r" % (e,)))
        return out
    try:
        h2, segs2, spans, start = split_container(w2)
    except Exception as e:
        out.append(("mesh:reserialised-container-broken:%s" % type(e).__name__, "%r" % (e,)))
        return out
    for (a1, b1, k1), (a2, b2, k2) in zip(spans, spans[1:]):
        if b1 > a2:
            out.append(("mesh:header:overlap", "segments %s and %s overlap in the re-serialised asset" % (k1, k2)))
    if set(segs2) != set(d["segments"]):
        out.append(("mesh:reserialise:segment-set", "re-serialised asset has %r, original %r" % (sorted(segs2), sorted(d["segments"]))))
    else:
        for name, raw in d["segments"].items():
            if not _np_eq(segs2[name], raw):
                key = ""
                if isinstance(raw, list) and isinstance(segs2[name], list) and len(raw) == len(segs2[name]):
                    for rm, sm in zip(raw, segs2[name]):
                        for k in rm:
                            if k not in sm or not _np_eq(sm[k], rm[k]):
                                key = k
                elif isinstance(raw, dict):
                    key = next((k for k in raw if k not in segs2[name] or not _np_eq(segs2[name][k], raw[k])), "")
                out.append(("mesh:reserialise:%s" % (key or name), "segment %s field %s differs after parse+serialise" % (name, key)))
    for k, v in d["header"].items():
        if h2.get(k) != v:
            out.append(("mesh:reserialise:header-%s" % k, "header %s %r, was %r" % (k, h2.get(k), v)))
    for name, ex in d["extra"].items():
        for k, v in ex.items():
            if h2.get(name, {}).get(k) != v:
                out.append(("mesh:reserialise:segment-header-extra", "%s.%s %r, was %r" % (name, k, h2.get(name, {}).get(k), v)))
    # the pass-through mode (segments kept as the bytes they are, as an uploader does): parse + serialise reproduces every segment
    try:
        ser_raw = LLMeshSerializer(parse_segment_contents=False)
        mesh_raw = se.BufferReader(d["endian"], w).read(ser_raw)
        wr = se.BufferWriter(d["endian"])
        wr.write(ser_raw, mesh_raw)
        _h, segs_r, _sp, _st = split_container(wr.copy_buffer())
        if set(segs_r) != set(d["segments"]) or any(not _np_eq(segs_r[n], raw) for n, raw in d["segments"].items()):
            out.append(("mesh:pass-through-mode:differs", "parse + serialise with parse_segment_contents=False changes the segments"))
    except Exception as e:
        out.append(("mesh:pass-through-mode:raised:%s" % type(e).__name__, "parse + serialise with parse_segment_contents=False raised %r" % (e,)))
    # idempotence from here on (the repository's own law, generalised)
    try:
        mesh2 = se.BufferReader(d["endian"], w2).read(ser)
        wr = se.BufferWriter(d["endian"])
        wr.write(ser, mesh2)
        w3 = wr.copy_buffer()
        if bytes(w3) != bytes(w2):
            out.append(("mesh:not-idempotent", "second serialisation differs from the first (%d vs %d bytes)" % (len(w3), len(w2))))
        if not _np_eq(mesh2.segments, mesh.segments):
            out.append(("mesh:model-not-fixed-point", "parse(serialise(mesh)).segments != mesh.segments"))
    except Exception as e:
        out.append(("mesh:reparse-raised:%s" % type(e).__name__, "%r" % (e,)))
    return out


def classes(d):
    c = ["mesh:endian:" + d["endian"]]
    for name, seg in d["segments"].items():
        c.append("mesh:seg:" + name)
        if not seg:
            c.append("mesh:empty-segment")
        if name in LODS:
            for m in seg:
                if "Weights" in m:
                    c.append("mesh:weights")
                    b = m["Weights"]
                    p = 0
                    while p < len(b):
                        k = 0
                        while k < 4 and b[p] != 0xFF:
                            p += 3
                            k += 1
                        if k < 4:
                            p += 1
                        c.append("mesh:influences:%d" % k)
                if "NoGeometry" in m:
                    c.append("mesh:nogeometry")
    return c


def nontrivial(d):
    return any(name in LODS and any("Position" in m and len(m["Position"]) for m in seg) for name, seg in d["segments"].items())
