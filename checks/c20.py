"""C20 - inventory, asset and transfer codecs round-trip.  Four parts (see c20_inv / c20_anim / c20_mesh / c20_xfer)."""
from hypothesis import strategies as st

from checks import c20_inv as inv
from checks import c20_anim as anim
from checks import c20_mesh as mesh
from checks import c20_xfer as xfer
from vlib.runner import hyp_run

PROPERTY = "C20"
LEVEL = "exploration"
RULE = ("(inventory) generated models of 0-6 nodes (items / categories / objects in a forest; every AssetType / InventoryType / "
        "FolderType / SaleType member; each optional field absent or present; nested metadata maps) serialised and parsed back in "
        "the legacy text schema, legacy LLSD and AIS LLSD, at model level and through each node class, under UTC and a non-UTC process time zone, non-trivial = at least one "
        "node; (animation) wire images of both format versions from a struct.pack reference encoder, 0-4 joints x 0-4 key frames, "
        "constraints, non-trivial = has key frames; (mesh) containers from a reference writer with raw u16/u8 binary fields in "
        "every segment kind, parsed fully and in pass-through mode, non-trivial = a LOD with vertices; (transfers) payload sizes around the chunk boundaries x every "
        "arrival sequence with duplicates up to n+2 arrivals for n <= 4 chunks, random orders beyond, through the real sender "
        "and both the packet handler and the request() pump, non-trivial = more than one chunk and reordered or duplicated")
ASSUMPTIONS = [
    "text schema: field values are drawn from what one line of the format can carry (no '|', tab, CR, LF, no leading white space) - "
    "the reference implementation reads values with \" %s %[^|]\"; LLSD flavours take arbitrary text",
    "text schema carries neither InventoryCategory.version nor InventoryPermissions.is_owner_group (llsd_only fields): left at default there",
    "AIS: categories have type CATEGORY and links carry only their target (the flavour has no field for anything else)",
    "dates are whole seconds; creation dates naive UTC as SchemaDate produces them",
    "animation: with duration 0 every raw key time means t=0, so only raw 0 is expected back; x,y,z of 0.1-format rotations form a unit quaternion's vector part",
    "FolderType.ENSEMBLE_START shares the legacy lookup name 'ensemble' with ENSEMBLE_END (as in the reference table): recorded as a known finding, not generated around",
]
EXHAUSTIVE_PARTS = {"quick": ["Xfer: every arrival sequence of length <= n+2 for all boundary payload sizes with n <= 4 chunks",
                              "Transfer: every arrival sequence of length <= n+2 for payloads of 1-4 packets"],
                    "thorough": ["the same with length <= n+3"]}
FLOORS = {"quick": dict({"text": 500, "legacy": 500, "ais": 500, "kind:item": 1500, "kind:cat": 500, "kind:obj": 500, "container-metadata": 200,
                         "item:metadata:present": 300, "item:sale_info:absent": 100, "anim:v0.1": 300, "anim:v1.0": 500, "anim:rotkeys": 300,
                         "anim:duration0": 20, "mesh:weights": 200, "mesh:influences:4": 100, "mesh:seg:physics_convex": 100, "mesh:seg:skin": 100, "mesh:empty-segment": 40,
                         "xfer:pump": 100, "transfer:pump": 100, "xfer:dups": 1000, "transfer:reordered": 1000},
                        **{"asset_type:%s" % a.name: 15 for a in inv.ASSET_TYPES}, **{"folder_type:%s" % f.name: 5 for f in inv.FOLDER_TYPES},
                        **{"inv_type:%s" % i.name: 10 for i in inv.INV_TYPES}, **{"sale_type:%s" % s.name: 50 for s in inv.SALE_TYPES})}
MANIFEST = {
    "text": "round-trip laws over generated inventory models (3 formats), wire-first animation and mesh assets, exhaustive + random chunk arrival orders",
    "note": "exploration: random models/assets per run; chunk arrival orders exhaustive to a stated bound",
    "technique": "property-based round-trip testing: Hypothesis-generated inventory models through text/legacy-LLSD/AIS codecs; "
                 "reference-encoder differential for llanim and mesh containers (decode values, byte identity, idempotence); "
                 "bounded exhaustive + random permutations-with-duplicates of Xfer/Transfer chunk arrival against a completion oracle",
}


def shards(tier):
    th = tier == "thorough"
    k = 12 if th else 1
    sh = []
    for form in ("text", "legacy", "ais"):
        for i in range(2):
            # dates are instants: the process time zone is configuration that must not matter
            sh.append({"kind": "inv", "form": form, "n": 450 * k, "tz": ("UTC", "Australia/Lord_Howe")[i]})
    for i in range(2):
        sh.append({"kind": "anim", "n": 700 * k})
    for i in range(3):
        sh.append({"kind": "mesh", "n": 300 * k})
    for size in xfer.BOUNDARY_SIZES:
        sh.append({"kind": "xfer-enum", "which": "xfer", "size": size, "extra": 3 if th else 2})
    for size in xfer.TRANSFER_SIZES:
        sh.append({"kind": "xfer-enum", "which": "transfer", "size": size, "extra": 3 if th else 2})
    for i in range(2):
        sh.append({"kind": "xfer-rand", "n": 400 * k})
    return sh


def run_shard(ctx, shard):
    kind = shard["kind"]
    if kind == "inv":
        form = shard["form"]
        import os
        import time
        os.environ["TZ"] = shard.get("tz", "UTC")
        time.tzset()

        def body(case):
            nodes = case[1]
            res = inv.laws(form, nodes)
            ctx.case(case, nontrivial=bool(nodes), classes=inv.classes(form, nodes))
            return res
        hyp_run(ctx, inv.model(form).map(lambda nodes: [form, nodes]), body, shard["n"], label="inv-" + form)
    elif kind == "anim":
        def body(case):
            d = case[1]
            res = anim.laws(d)
            ctx.case(case, nontrivial=anim.nontrivial(d), classes=anim.classes(d))
            return res
        hyp_run(ctx, anim.anim().map(lambda d: ["anim", d]), body, shard["n"], label="anim")
    elif kind == "mesh":
        def body(case):
            d = case[1]
            ctx.case(case, nontrivial=mesh.nontrivial(d), classes=mesh.classes(d))
            try:
                return mesh.laws(d)
            except Exception as e:
                # the comparison itself fell over what the library returned (a shape nobody documented): a verdict, not a harness error
                return [("mesh:decoded-shape-unusable:%s" % type(e).__name__, "comparing the decoded asset with the wire raised %r" % (e,))]
        hyp_run(ctx, mesh.mesh_desc().map(lambda d: ["mesh", d]), body, shard["n"], label="mesh")
    elif kind == "xfer-enum":
        which, size = shard["which"], shard["size"]
        n_chunks = len(xfer.xfer_sender_datagrams(size)) if which == "xfer" else len(xfer.transfer_sender_datagrams(size)[2])
        if n_chunks > 4:
            n_orders = 0
            nt = 0
            # too many sequences to enumerate: all permutations + each single duplication instead
            import itertools
            seqs = []
            for p in itertools.permutations(range(n_chunks)):
                seqs.append(p)
                if len(seqs) > 800:
                    break
        else:
            seqs = xfer.all_orders(n_chunks, shard["extra"])
        n_orders = nt = 0
        sample = None
        cls = {}
        for order in seqs:
            res, facts = xfer.run_order(which, size, order, info_at=0 if which == "transfer" else None)
            n_orders += 1
            if facts["n"] > 1 and (facts["dups"] or facts["reordered"]):
                nt += 1
                sample = sample or [which, size, list(order)]
            for key in ("dups", "reordered", "completed"):
                if facts[key]:
                    cls["%s:%s" % (which, key)] = cls.get("%s:%s" % (which, key), 0) + 1
            if res:
                ctx.report(["xfer", {"kind": which, "size": size, "order": list(order), "via_pump": False, "turbo": False,
                                     "info_at": 0 if which == "transfer" else None, "salt": 0}], res)
        ctx.bulk(n_orders, nt, cls, sample)
    else:
        def body(case):
            c = case[1]
            res, facts = xfer.run_case(c)
            cl = [c["kind"] + (":pump" if c["via_pump"] else ":direct")]
            if c["via_pump"]:
                cl.append(c["kind"] + ":pump")
            for key in ("dups", "reordered", "completed"):
                if facts[key]:
                    cl.append("%s:%s" % (c["kind"], key))
            if c["turbo"]:
                cl.append("xfer:turbo")
            ctx.case(case, nontrivial=facts["n"] > 1 and bool(facts["dups"] or facts["reordered"]), classes=cl)
            return res
        hyp_run(ctx, xfer.random_case().map(lambda c: ["xfer", c]), body, shard["n"], label="xfer")


def replay(ctx, case):
    part, payload = case[0], case[1]
    if part in ("text", "legacy", "ais"):
        import os
        import time
        res = []
        for tz in ("UTC", "Australia/Lord_Howe"):
            os.environ["TZ"] = tz
            time.tzset()
            res.extend(r for r in inv.laws(part, payload) if r not in res)
        return res
    if part == "anim":
        return anim.laws(payload)
    if part == "mesh":
        try:
            return mesh.laws(payload)
        except Exception as e:
            return [("mesh:decoded-shape-unusable:%s" % type(e).__name__, "comparing the decoded asset with the wire raised %r" % (e,))]
    if part == "xfer":
        return xfer.run_case(payload)[0]
    raise ValueError(part)
