"""C02 - pass-through fidelity: unmodified datagrams re-encode byte-identically."""
import math
import struct

from hypothesis import strategies as st

from hippolyzer.lib.base.message.udpserializer import UDPMessageSerializer
from hippolyzer.lib.base.message.udpdeserializer import UDPMessageDeserializer
from hippolyzer.lib.base.message.msgtypes import MsgBlockType, MsgFrequency
from hippolyzer.lib.base.settings import Settings

from vlib import gen_template as gt
from vlib.runner import hyp_run
from checks.c03 import expand_ref, expand_ref_len, canonical

T = gt.T
PROPERTY = "C02"
LEVEL = "exploration"
RULE = ("datagrams built by the /verif reference encoder from template-generated messages (incl. text-shaped byte values: "
        "unterminated, double-NUL, NUL in the middle, invalid UTF-8), then a generated mutation program (none / byte flips "
        "/ insert / delete / truncate anywhere / append trailing bytes / re-zero-code non-canonically: split runs, 00 01 "
        "pairs, wrap form, trailing lone 00 / inconsistent ack count), then a generated inspection order over {header "
        "only, msg.blocks, msg[name], to_dict, repr} with deferred parsing on or off, possibly repeated, in half of the cases with another "
        "datagram received in between; plus zero-coded bodies with zero runs at the wrap lengths.  Only datagrams "
        "accepted by the header parser are judged (others counted).  Non-trivial = the body was parsed (successfully or "
        "not) before re-encoding; distinct by (datagram bytes, inspection order).")
ASSUMPTIONS = [
    "byte identity after a successful parse is required only when an independent template walker finds the body "
    "consumed exactly, the zero-coding canonical, and no NaN float field (Python floats cannot carry every NaN payload)",
    "in eager mode a body that cannot be parsed yields no message object at all; the forwardability clause is judged in deferred mode",
    "message equality for the same-message clause is to_dict(extended) with NaN==NaN",
]
FLOORS = {"quick": {"parse_failed": 200, "noncanonical_zerocoding": 200, "text_shapes": 200, "identity_required": 2000,
                    "never_parsed": 300, "lazy_parsed": 1000, "eager_parsed": 500, "mutated": 1500},
          "thorough": {"parse_failed": 2000, "noncanonical_zerocoding": 2000}}
MANIFEST = {
    "text": "Generated datagrams (reference-encoded, then byte-mutated / truncated / extended / re-zero-coded) are decoded, "
            "inspected in a generated order and re-encoded; byte identity is demanded exactly where the property demands it "
            "(decided by an independent template walker), same-message equality everywhere, and forwardability + retained "
            "raw body after a failed lazy parse.",
    "note": "Sampling over an unbounded input space. Trusts the reference encoder/walker in /verif. NaN-bearing float fields "
            "are excluded from byte identity (outside C01's value domain).",
    "technique": "Hypothesis generation + mutation programs; round-trip / metamorphic oracles gated by a reference template walker; thorough tier adds coverage-guided atheris campaigns with the same oracle inside the target",
}

SER = UDPMessageSerializer()


def _deser(deferred):
    s = Settings()
    s.ENABLE_DEFERRED_PACKET_PARSING = deferred
    return UDPMessageDeserializer(settings=s)


DESERS = {True: _deser(True), False: _deser(False)}


# ---- reference pieces -----------------------------------------------------------------------------
def compress_ref(data: bytes) -> bytes:
    out = bytearray()
    i, n = 0, len(data)
    while i < n:
        if data[i]:
            out.append(data[i])
            i += 1
            continue
        j = i
        while j < n and data[j] == 0 and j - i < 255:
            j += 1
        out += bytes([0, j - i])
        i = j
    return bytes(out)


def ref_datagram(case) -> bytes:
    body = gt.ref_body(case)
    if case["flags"] & 0x80:
        body = compress_ref(body)
    return gt.ref_header(case) + body + gt.ref_trailer(case)


_BY_NUM = {}
for _n, _t in gt.TEMPLATES.items():
    _BY_NUM[gt.ref_msgnum(_t)] = _t


def ref_split(dg: bytes):
    """header fields per the wire format, or None when the datagram is too short to say anything"""
    if len(dg) < 7:
        return None
    flags, off = dg[0], dg[5]
    end = len(dg)
    if flags & 0x10:
        n = dg[-1]
        end = len(dg) - 1 - 4 * n
        if end <= 6:
            return None
    return {"flags": flags, "offset": off, "body_wire": dg[6:end], "trailer": dg[end:]}


def walk_body(plain: bytes, offset: int):
    """independent template walk.  returns (status, has_nan, name) with status in
    exact / trailing / short / empty / unknown-message"""
    tmpl = None
    for ln in (1, 2, 4):
        t = _BY_NUM.get(plain[:ln])
        if t is not None and len(gt.ref_msgnum(t)) == ln:
            if ln == 1 and plain[:1] == b"\xff":
                continue
            tmpl = t
            break
    if tmpl is None:
        return "unknown-message", False, None
    pos = len(gt.ref_msgnum(tmpl)) + offset
    if pos > len(plain):
        return "short", False, tmpl.name
    has_nan = False
    started = False
    for b in tmpl.blocks:
        if pos == len(plain):
            break
        if b.block_type == MsgBlockType.MBT_SINGLE:
            count = 1
        elif b.block_type == MsgBlockType.MBT_MULTIPLE:
            count = b.number
        else:
            count = plain[pos]
            pos += 1
        started = True
        for _ in range(count):
            for v in b.variables:
                if v.type == T.MVT_VARIABLE:
                    if pos + v.size > len(plain):
                        return "short", has_nan, tmpl.name
                    ln = int.from_bytes(plain[pos:pos + v.size], "little")
                    pos += v.size
                elif v.type == T.MVT_FIXED:
                    ln = v.size
                else:
                    ln = gt.FIXED_SIZE[v.type]
                if pos + ln > len(plain):
                    return "short", has_nan, tmpl.name
                if v.type in (T.MVT_F32, T.MVT_LLVector3, T.MVT_LLVector4, T.MVT_LLQuaternion):
                    for k in range(0, ln, 4):
                        if math.isnan(struct.unpack("<f", plain[pos + k:pos + k + 4])[0]):
                            has_nan = True
                elif v.type in (T.MVT_F64, T.MVT_LLVector3d):
                    for k in range(0, ln, 8):
                        if math.isnan(struct.unpack("<d", plain[pos + k:pos + k + 8])[0]):
                            has_nan = True
                pos += ln
    if not started and tmpl.blocks:
        return "empty", has_nan, tmpl.name
    return ("exact" if pos == len(plain) else "trailing"), has_nan, tmpl.name


# ---- mutation programs ------------------------------------------------------------------------------
def rezero(body_wire: bytes, mode: str) -> bytes:
    """re-express a canonically zero-coded body non-canonically (same expansion)"""
    toks = []
    i = 0
    while i < len(body_wire):
        if body_wire[i] == 0 and i + 1 < len(body_wire):
            toks.append(("z", body_wire[i + 1]))
            i += 2
        else:
            toks.append(("l", body_wire[i]))
            i += 1
    out = bytearray()
    if mode == "pairs":
        for k, v in toks:
            out += b"\x00\x01" * v if k == "z" else bytes([v])
    elif mode == "split":
        for k, v in toks:
            if k == "z" and v >= 2:
                out += bytes([0, 1, 0, v - 1])
            elif k == "z":
                out += bytes([0, v])
            else:
                out.append(v)
    elif mode == "wrap":
        i = 0
        while i < len(toks):
            k, v = toks[i]
            if k == "z":
                total = 0
                j = i
                while j < len(toks) and toks[j][0] == "z":
                    total += toks[j][1]
                    j += 1
                if total > 256:
                    kk, n = divmod(total, 256)
                    if n == 0:
                        kk, n = kk - 1, 255
                        out += bytes(1 + kk) + bytes([n]) + b"\x00\x01"
                    else:
                        out += bytes(1 + kk) + bytes([n])
                else:
                    for _, vv in toks[i:j]:
                        out += bytes([0, vv])
                i = j
            else:
                out.append(v)
                i += 1
    elif mode == "lone":
        for k, v in toks:
            out += bytes([0, v]) if k == "z" else bytes([v])
        if toks and toks[-1] == ("z", 1):
            del out[-1]
    return bytes(out)


def apply_mutations(case, dg: bytes, muts):
    for m in muts:
        op = m[0]
        if op == "flip":
            if len(dg) > 6:
                pos = 6 + int(m[1] * (len(dg) - 6))
                pos = min(pos, len(dg) - 1)
                dg = dg[:pos] + bytes([dg[pos] ^ m[2]]) + dg[pos + 1:]
        elif op == "ins":
            pos = 6 + int(m[1] * max(len(dg) - 6, 0))
            dg = dg[:pos] + m[2] + dg[pos:]
        elif op == "del":
            pos = 6 + int(m[1] * max(len(dg) - 6, 0))
            dg = dg[:pos] + dg[pos + m[2]:]
        elif op == "trunc":
            pos = int(m[1] * (len(dg) + 1))
            dg = dg[:pos]
        elif op == "append":
            dg = dg + m[1]
        elif op == "rezero":
            sp = ref_split(dg)
            if sp and sp["flags"] & 0x80 and canonical(sp["body_wire"]):
                dg = dg[:6] + rezero(sp["body_wire"], m[1]) + sp["trailer"]
        elif op == "bomb":
            # a zero-coded body that expands beyond the decoder's 0x3000 cap: header still fine, body refused when it is read
            sp = ref_split(dg)
            if sp and sp["flags"] & 0x80:
                dg = dg[:6] + sp["body_wire"] + b"\x00\xff" * m[1] + sp["trailer"]
        elif op == "cutblocks":
            # cut the datagram exactly at a block boundary inside the last block list: its count says N, only k < N blocks follow
            if not (case["flags"] & 0x90) and case["blocks"] and dg == ref_datagram(case):
                bname, insts = case["blocks"][-1]
                k = len(insts) - 1 - (m[1] % len(insts)) if insts else None
                if k is not None and 0 <= k < len(insts):
                    short = dict(case, blocks=[list(b) for b in case["blocks"][:-1]] + [[bname, insts[:k]]])
                    try:
                        dg = dg[:len(ref_datagram(short))]
                    except Exception:
                        pass
        elif op == "offset":
            # the extra-header length byte says more than there is room for
            if len(dg) > 6:
                dg = dg[:5] + bytes([m[1]]) + dg[6:]
        elif op == "ackcount":
            if dg and dg[0] & 0x10:
                dg = dg[:-1] + bytes([m[1]])
            else:
                dg = bytes([dg[0] | 0x10]) + dg[1:] + bytes([m[1]]) if dg else dg
    return dg


frac = st.floats(min_value=0.0, max_value=0.999, allow_nan=False)
MUT = st.one_of(
    st.tuples(st.just("flip"), frac, st.integers(1, 255)),
    st.tuples(st.just("ins"), frac, st.binary(min_size=1, max_size=4)),
    st.tuples(st.just("del"), frac, st.integers(1, 4)),
    st.tuples(st.just("trunc"), frac),
    st.tuples(st.just("append"), st.binary(min_size=1, max_size=16)),
    st.tuples(st.just("rezero"), st.sampled_from(["pairs", "split", "wrap", "lone"])),
    st.tuples(st.just("ackcount"), st.integers(0, 255)),
    st.tuples(st.just("cutblocks"), st.integers(0, 5)),
    st.tuples(st.just("offset"), st.one_of(st.integers(1, 12), st.integers(0, 255))),
)
MUTS = st.one_of(st.just([]), st.just([]), st.lists(MUT, min_size=1, max_size=1), st.lists(MUT, min_size=1, max_size=3),
                 st.lists(st.one_of(st.tuples(st.just("trunc"), st.floats(min_value=0.3, max_value=0.999)),
                                    st.tuples(st.just("del"), frac, st.integers(1, 4))), min_size=1, max_size=1),
                 st.lists(st.tuples(st.just("rezero"), st.sampled_from(["pairs", "split", "wrap", "lone"])), min_size=1, max_size=1),
                 st.lists(st.tuples(st.just("cutblocks"), st.integers(0, 5)), min_size=1, max_size=1),
                 st.lists(st.tuples(st.just("offset"), st.integers(1, 12)), min_size=1, max_size=1))
INSPECT = st.one_of(
    st.just(["never"]), st.just(["header"]),
    st.lists(st.sampled_from(["header", "blocks", "getitem", "to_dict", "repr", "blocks"]), min_size=1, max_size=3),
)
CASE = st.fixed_dictionaries({
    "msg": gt.message_case(allow_str=False, quat_near_unit=True),
    "muts": MUTS,
    "inspect": INSPECT,
    "deferred": st.sampled_from([True, True, False]),
})
# zero-heavy messages for the re-zero-coding class: force the ZEROCODED flag
CASE_ZC = st.fixed_dictionaries({
    "msg": gt.message_case(allow_str=False, quat_near_unit=True).map(lambda c: dict(c, flags=c["flags"] | 0x80) if len(gt.ref_body(c)) < 0x2F00 else c),
    "muts": st.one_of(st.lists(st.tuples(st.just("rezero"), st.sampled_from(["pairs", "split", "wrap", "lone"])), min_size=1, max_size=1),
                      st.lists(st.tuples(st.just("rezero"), st.sampled_from(["pairs", "split", "wrap", "lone"])), min_size=1, max_size=1),
                      st.lists(st.tuples(st.just("bomb"), st.integers(49, 70)), min_size=1, max_size=1)),
    "inspect": INSPECT,
    "deferred": st.sampled_from([True, True, False]),
})


# ---- oracle -----------------------------------------------------------------------------------------
def _norm(o):
    if isinstance(o, float):
        return "nan" if o != o else o
    if isinstance(o, dict):
        return {k: _norm(v) for k, v in o.items()}
    if isinstance(o, (list, tuple)):
        return [_norm(x) for x in o]
    if hasattr(o, "data") and hasattr(o, "_fields") or type(o).__name__ in ("Vector3", "Vector4", "Quaternion", "Vector2"):
        return [type(o).__name__] + [_norm(x) for x in tuple(o)]
    if isinstance(o, bytes):
        return bytes(o)
    return o


def _touch(msg, what):
    if what == "header":
        _ = (msg.name, msg.packet_id, msg.acks, msg.extra, msg.send_flags, msg.reliable, msg.zerocoded)
    elif what == "blocks":
        _ = msg.blocks
    elif what == "getitem":
        tmpl = gt.TEMPLATES[msg.name]
        if tmpl.blocks:
            _ = tmpl.blocks[0].name in msg
            _ = msg.blocks.get(tmpl.blocks[0].name)
    elif what == "to_dict":
        _ = msg.to_dict()
    elif what == "repr":
        _ = repr(msg)


def _mk_neighbours():
    from hippolyzer.lib.base.datatypes import UUID
    from hippolyzer.lib.base.message.message import Message, Block
    a = Message("AgentPause", Block("AgentData", AgentID=UUID(int=1), SessionID=UUID(int=2), SerialNum=1), packet_id=900001)
    b = Message("CompletePingCheck", Block("PingID", PingID=7), packet_id=900002)
    return [bytes(SER.serialize(a)), bytes(SER.serialize(b))]


_NEIGHBOURS = _mk_neighbours()


def laws(ctx, case):
    dg0 = ref_datagram(case["msg"])
    dg = apply_mutations(case["msg"], dg0, [tuple(m) for m in case["muts"]])
    classes = []
    if dg != dg0:
        classes.append("mutated")
    for m in case["muts"]:
        classes.append("mut:" + m[0])
    tk = gt.case_classes(case["msg"])
    if any(c.startswith("text_bytes") for c in tk):
        classes.append("text_shapes")
    return laws_on_datagram(ctx, dg, case["deferred"], case["inspect"], classes,
                            ref_name=case["msg"]["name"] if dg == dg0 and not case["muts"] else None)


def laws_on_datagram(ctx, dg, deferred, inspect, classes, ref_name=None):
    """the three clauses of the property for one received datagram (however it was produced)"""
    out = []
    sp = ref_split(dg)
    # ---- decode ----
    try:
        msg = DESERS[deferred].deserialize(dg)
    except Exception as e:
        if not deferred:
            # eager: either the header or the body was refused; find out which with the deferred decoder
            try:
                DESERS[True].deserialize(dg)
                classes.append("eager_body_refused")
            except Exception:
                classes.append("rejected_by_header")
        else:
            classes.append("rejected_by_header")
        if ctx is not None:
            ctx.case((dg, tuple(inspect), deferred), nontrivial=False, classes=classes)
        if ref_name is not None:
            out.append(("decode:reference-datagram-refused", "%s: reference-encoded datagram refused: %r" % (ref_name, e)))
        return out
    if len(dg) % 2:
        # datagrams do not arrive alone: another one (of another type) is received before anybody looks into this one
        try:
            DESERS[deferred].deserialize(_NEIGHBOURS[1] if msg.name == "AgentPause" else _NEIGHBOURS[0])
            classes.append("neighbour_in_between")
        except Exception:
            pass
    # what does the format say about this body?
    status, has_nan, wname = "unknown", False, None
    canon = True
    overcap = False
    if sp is not None:
        bw = sp["body_wire"]
        if sp["flags"] & 0x80:
            canon = canonical(bw) and compress_ref(expand_ref(bw)[:0x4000]) == bw if expand_ref_len(bw) <= 0x4000 else False
            if expand_ref_len(bw) > 0x3000:
                overcap = True
                status = "overcap"
            else:
                status, has_nan, wname = walk_body(expand_ref(bw), sp["offset"])
        else:
            status, has_nan, wname = walk_body(bw, sp["offset"])
    if not canon:
        classes.append("noncanonical_zerocoding")
    # ---- inspections ----
    parsed = not deferred
    failed = None
    if "never" not in inspect:
        for what in inspect:
            try:
                _touch(msg, what)
                if what != "header":
                    parsed = True
            except Exception as e:
                failed = (what, e)
                break
    mode = "eager" if not deferred else ("lazy" if parsed or failed else "unparsed")
    classes.append({"eager": "eager_parsed", "lazy": "lazy_parsed", "unparsed": "never_parsed"}[mode])
    if failed is not None:
        classes.append("parse_failed")
        # clause 3: still forwardable byte-identically, raw body retained, a second access fails again
        rb = msg.raw_body
        if sp is not None and (rb is None or bytes(rb) != sp["body_wire"]):
            out.append(("failed-parse:raw-body-lost", "%s: after a failed %s the raw body is %s" % (
                msg.name, failed[0], "None" if rb is None else "different")))
        try:
            again = bytes(SER.serialize(msg))
            if again != dg:
                out.append(("failed-parse:forwarded-bytes-differ", "%s: datagram re-encoded after a failed parse differs from what arrived" % msg.name))
        except Exception as e:
            out.append(("failed-parse:not-forwardable", "%s: after a failed parse (%r) the message cannot be re-encoded: %r" % (msg.name, failed[1], e)))
        try:
            _ = msg.blocks
            # a second access must not expose a half-parsed message as if it were complete
            out.append(("failed-parse:second-access-succeeds", "%s: second body access after a failed parse returned blocks %r" % (
                msg.name, list(_.keys()))))
        except Exception:
            pass
        if ctx is not None:
            ctx.case((dg, tuple(inspect), deferred), nontrivial=True, classes=classes)
        return out
    # ---- re-encode ----
    try:
        dg2 = bytes(SER.serialize(msg))
    except Exception as e:
        out.append(("reencode:raises:%s:%s" % (mode, type(e).__name__), "%s (%s): re-encode raised %r" % (msg.name, mode, e)))
        if ctx is not None:
            ctx.case((dg, tuple(inspect), deferred), nontrivial=parsed, classes=classes)
        return out
    # (a body that, by the format, ends inside a block list has not been understood by anybody: looking at it must not change it either)
    identity_required = (mode == "unparsed") or (status == "exact" and canon and not has_nan) or (status == "short" and canon)
    if status == "short" and parsed:
        classes.append("short_body_inspected_without_failure")
    if identity_required:
        classes.append("identity_required")
        if dg2 != dg:
            pos = next((i for i in range(min(len(dg), len(dg2))) if dg[i] != dg2[i]), min(len(dg), len(dg2)))
            out.append(("identity:%s" % mode, "%s (%s, inspected %s): re-encoded datagram differs at byte %d (len %d -> %d)" % (
                msg.name, mode, inspect, pos, len(dg), len(dg2))))
    # clause 2: same message
    try:
        a = DESERS[False].deserialize(dg)
        ok_a = True
    except Exception:
        ok_a = False
    if ok_a:
        try:
            b = DESERS[False].deserialize(dg2)
            da, db = _norm(a.to_dict(extended=True)), _norm(b.to_dict(extended=True))
            if da != db:
                out.append(("same-message:%s" % mode, "%s (%s): the re-encoded datagram decodes to a different message" % (msg.name, mode)))
        except Exception as e:
            out.append(("same-message:reencoded-undecodable:%s" % mode, "%s (%s): re-encoded datagram cannot be decoded: %r" % (msg.name, mode, e)))
    if ctx is not None:
        ctx.case((dg, tuple(inspect), deferred), nontrivial=parsed, classes=classes)
    return out


def shards(tier):
    th = tier == "thorough"
    sh = []
    for i in range(12):
        sh.append({"kind": "gen", "n": 9000 if th else 900})
    for i in range(4):
        sh.append({"kind": "zc", "n": 6000 if th else 600})
    sh.append({"kind": "zero_runs"})
    if th:
        for i in range(4):
            sh.append({"kind": "atheris", "runs": 150000, "offset": i})
    return sh


def run_shard(ctx, shard):
    if shard["kind"] == "atheris":
        from vlib.fuzz import run_campaign
        run_campaign(ctx, "checks.c02", shard["runs"], 1200, fuzz_corpus(), "datagram", shard["offset"])
        return
    if shard["kind"] == "zero_runs":
        # zero-coded messages whose body has a run of zeros of exactly / just around the lengths at which the run-length byte wraps
        for n_zero in (253, 254, 255, 256, 257, 509, 510, 511, 764, 765, 766, 1020):
            for lead in (b"\x07", b"\x07\x00\x07"):
                # a Variable-2 field: [2 length bytes][bytes]; the run sits between a non-zero byte of the field and the non-zero byte after it
                msg = {"name": "ChatFromViewer", "flags": 0x80, "pid": 1000 + n_zero, "acks": [], "extra": b"", "fill": False,
                       "blocks": [["AgentData", [{"AgentID": "%032x" % 0x0101010101, "SessionID": "1" * 32}]],
                                  ["ChatData", [{"Message": lead + bytes(n_zero), "Type": 1, "Channel": 0x01010101}]]]}
                for deferred, inspect in ((True, ["blocks"]), (False, ["never"]), (True, ["to_dict", "blocks"])):
                    res = laws(ctx, {"msg": msg, "muts": [], "deferred": deferred, "inspect": inspect})
                    if res:
                        ctx.report({"msg": msg, "muts": [], "deferred": deferred, "inspect": inspect}, res)
        return
    strat = CASE if shard["kind"] == "gen" else CASE_ZC
    hyp_run(ctx, strat, lambda case: laws(ctx, case), shard["n"])


def summarize(classes):
    pass


_FUZZ_INSPECT = [["never"], ["header"], ["blocks"], ["header", "blocks"], ["to_dict"], ["getitem", "repr"], ["repr"], ["blocks", "to_dict"]]


def fuzz_corpus():
    from vlib.fuzz import sample_strategy
    out = []
    for c in sample_strategy(gt.message_case(allow_str=False), 60, seed=2):
        dg = ref_datagram(c)
        if len(dg) <= 400:
            for mode in (0, 1, 6, 9):
                out.append(bytes([mode]) + dg)
    return out


def fuzz_one(data: bytes):
    """atheris target: byte 0 picks lazy/eager and the inspection order, the rest is the datagram as received"""
    if len(data) < 7:
        return [], False, ()
    deferred = not (data[0] & 1)
    inspect = _FUZZ_INSPECT[(data[0] >> 1) % len(_FUZZ_INSPECT)]
    seen = []

    class _C:
        def case(self, case, nontrivial=True, classes=()):
            seen.append((nontrivial, tuple(classes)))
    res = laws_on_datagram(_C(), data[1:], deferred, inspect, [])
    nt = bool(seen and seen[-1][0])
    return res, nt, [c for c in (seen[-1][1] if seen else ()) if c in ("parse_failed", "identity_required", "rejected_by_header",
                                                                            "noncanonical_zerocoding", "eager_body_refused")]


def replay(ctx, case):
    if isinstance(case, dict) and "fuzz" in case:
        return fuzz_one(bytes(case["data"]))[0]
    case = dict(case)
    case["muts"] = [tuple(m) for m in case["muts"]]
    return laws(None, case)
