"""C01 - LLUDP codec: every template-conformant message round-trips by value."""
from hypothesis import strategies as st

from hippolyzer.lib.base.message.udpserializer import UDPMessageSerializer
from hippolyzer.lib.base.message.udpdeserializer import UDPMessageDeserializer
from hippolyzer.lib.base.message.msgtypes import MsgBlockType
from hippolyzer.lib.base.settings import Settings

from vlib import gen_template as gt
from vlib.runner import hyp_run
from checks.c03 import expand_ref, canonical

PROPERTY = "C01"
LEVEL = "exploration"
RULE = ("Hypothesis-generated template-conformant messages: template name (sampled in quick, every one of the 481 in "
        "thorough), block counts (Single/Multiple/Variable 0..255), per-variable values over the wire domain of each "
        "of the 20 variable types (boundary-biased ints, all finite/inf floats at wire width incl. -0.0, arbitrary and "
        "text-shaped bytes incl. NULs/non-UTF8, str values), flags incl. undefined bits, packet id, 0..255 acks, 0..255 "
        "extra bytes, trailing-block omission; profile `fill`: random subsets of variables left unset in default-filled "
        "blocks; each decoded-but-unparsed message additionally gets other extra header bytes and is sent on; `fault` shards: "
        "the long-lived serializer is first handed a non-conformant variant of the case that it must refuse part-way through "
        "the body (unexpected block, unset variable in a block not marked for filling, Multiple-count mismatch, out-of-range "
        "integer, block after a missing one) and then the conformant case, which must encode exactly as on a fresh history.  "
        "Non-trivial = at least one block instance with a variable; distinct by full case content.")
ASSUMPTIONS = [
    "independent reference encoder in /verif (struct formats per variable type written from the template format) defines the expected datagram",
    "zero-coded bodies are kept under the decoder's documented 0x3000 expansion cap (larger bodies are generated unflagged)",
    "bytes given to a text-named variable that are NUL-terminated valid UTF-8 decode to str by design; they must re-encode to the same bytes",
    "str values have no trailing NUL (the decoder strips terminators) and are only given to non-binary Variable fields",
]
_TYPE_FLOORS = {"type:%s" % t.name: 60 for t in {v.type for tm in gt.TEMPLATES.values() for b in tm.blocks for v in b.variables}}
FLOORS = {"quick": dict(_TYPE_FLOORS, **{"zerocoded": 300, "plain": 300, "acks": 300, "extra": 300, "block_kind_0": 500,
                                          "block_kind_1": 30, "block_kind_2": 300, "var2_len>255": 20, "fill_cases": 1500,
                                          "varblock_count_0": 100, "trailing_blocks_omitted": 50, "unset:MVT_FIXED": 10,
                                          "unset:MVT_VARIABLE": 100, "var_str": 100, "neg_zero": 20,
                                          "after_fault:unexpected_block:refused": 150, "after_fault:unset_nofill:refused": 100,
                                          "after_fault:bad_value:refused": 20,
                                          "after_fault:block_after_missing:refused": 12}),
          "thorough": dict(_TYPE_FLOORS, **{"templates_seen": 481, "unset:MVT_FIXED": 40})}
MANIFEST = {
    "text": "Generated search over the message template: each case is encoded, compared byte-for-byte with an independent "
            "reference encoder (so a consistent error in both codec directions is still seen), decoded with deferred "
            "parsing on and off, compared value-by-value at the template's type and width, and re-encoded to the same "
            "datagram; a slice of the cases is encoded right after the same serializer refused a non-conformant message (two-step history); thorough tier visits every template.",
    "note": "Sampling, not exhaustive: a defect confined to one template variable or one magic length is found with the "
            "probability the class counters in the evidence imply. Trusts the 60-line reference encoder.",
    "technique": "Hypothesis template-driven generation; differential vs reference encoder + decode/value + wire-fixpoint oracles",
}

SER = UDPMessageSerializer()


def _settings(deferred):
    s = Settings()
    s.ENABLE_DEFERRED_PACKET_PARSING = deferred
    return s


DESERS = {True: UDPMessageDeserializer(settings=_settings(True)), False: UDPMessageDeserializer(settings=_settings(False))}


FAULTS = ("unexpected_block", "unset_nofill", "multiple_mismatch", "bad_value", "block_after_missing")


def _faulty(case, kind):
    """the conformant message of `case`, made non-conformant as late in its body as possible (so that the encoder has
    already written something when it finds out); None when this kind of fault does not apply to the case"""
    msg = gt.build(case)
    tmpl = gt.TEMPLATES[case["name"]]
    if kind == "unexpected_block":
        msg.create_block_list("NoSuchBlockInTemplate")
        return msg
    if kind == "unset_nofill":
        for bname, insts in reversed(case["blocks"]):
            if insts and tmpl.get_block(bname).variables:
                blk = msg.blocks[bname][-1]
                blk.fill_missing = False
                blk.vars.pop(tmpl.get_block(bname).variables[-1].name, None)
                return msg
        return None
    if kind == "multiple_mismatch":
        for bname, insts in reversed(case["blocks"]):
            if tmpl.get_block(bname).block_type == MsgBlockType.MBT_MULTIPLE:
                msg.blocks[bname].append(msg.blocks[bname][-1])
                return msg
        return None
    if kind == "bad_value":
        for bname, insts in reversed(case["blocks"]):
            for var in reversed(tmpl.get_block(bname).variables):
                if insts and var.type.name in ("MVT_U8", "MVT_U16", "MVT_U32", "MVT_S8", "MVT_S16", "MVT_S32"):
                    msg.blocks[bname][-1].fill_missing = False
                    msg.blocks[bname][-1].vars[var.name] = 1 << 40
                    return msg
        return None
    if kind == "block_after_missing":
        present = [b for b, _ in case["blocks"]]
        if len(present) >= 3:
            del msg.blocks[present[-2]]
            return msg
        return None
    return None


def fault_then(case):
    """history law: the long-lived serializer is first given a message it must refuse, then the conformant one"""
    try:
        bad = _faulty(case, case["fault"])
    except Exception:
        bad = None
    if bad is None:
        return "n/a"
    try:
        SER.serialize(bad)
    except Exception:
        return "refused"
    return "accepted"


def laws(case):
    out = []
    if case.get("fault"):
        fault_then(case)
    try:
        msg = gt.build(case)
        dg = bytes(SER.serialize(msg))
    except Exception as e:
        return [("encode:raises:%s" % type(e).__name__, "%s: serialize raised %r" % (case["name"], e))]
    # ---- (c) reference datagram ----
    hdr, trl = gt.ref_header(case), gt.ref_trailer(case)
    body_wire = dg[6:len(dg) - len(trl)] if len(trl) else dg[6:]
    if dg[:6] != hdr:
        out.append(("wire:header", "header %s != reference %s" % (dg[:6].hex(), hdr.hex())))
    if trl and dg[-len(trl):] != trl:
        out.append(("wire:acks-trailer", "ack trailer %s != reference %s" % (dg[-len(trl):].hex()[:40], trl.hex()[:40])))
    if case["flags"] & 0x80:
        if not canonical(body_wire):
            out.append(("wire:zerocoding-not-canonical", "body zero-coding is not canonical"))
        body_plain = expand_ref(body_wire)
    else:
        body_plain = body_wire
    ref = gt.ref_body(case)
    if body_plain != ref:
        out.append(("wire:ref-mismatch:%s" % gt.first_diff_label(case, body_plain),
                    "%s: body differs from reference encoding at %s (len %d vs %d)" % (
                        case["name"], gt.first_diff_label(case, body_plain), len(body_plain), len(ref))))
    # ---- (a) decode + value, both parsing modes; (b) wire fixpoint ----
    for deferred in (True, False):
        tag = "deferred" if deferred else "eager"
        try:
            m2 = DESERS[deferred].deserialize(dg)
            diffs = gt.compare_decoded(case, m2)
        except Exception as e:
            out.append(("decode:raises:%s" % type(e).__name__, "%s (%s): decode raised %r" % (case["name"], tag, e)))
            continue
        for loc, why in diffs[:3]:
            out.append(("value:%s:%s" % (loc.split(":")[-1] if ":" in loc else "structure", why.split(" ")[0]),
                        "%s (%s) %s: %s" % (case["name"], tag, loc, why)))
        if m2.send_flags != (case["flags"] & 0xFF):
            out.append(("header:flags", "flags %r != %r" % (m2.send_flags, case["flags"])))
        if m2.packet_id != case["pid"]:
            out.append(("header:packet_id", "packet id %r != %r" % (m2.packet_id, case["pid"])))
        if tuple(m2.acks) != tuple(case["acks"]):
            out.append(("header:acks", "acks %r != %r" % (tuple(m2.acks)[:5], tuple(case["acks"])[:5])))
        if bytes(m2.extra) != case["extra"]:
            out.append(("header:extra", "extra %r != %r" % (bytes(m2.extra)[:20], case["extra"][:20])))
        try:
            dg2 = bytes(SER.serialize(m2))
            if dg2 != dg:
                out.append(("fixpoint:differs", "%s (%s): re-encoding the decoded message gives a different datagram" % (case["name"], tag)))
        except Exception as e:
            out.append(("fixpoint:raises:%s" % type(e).__name__, "%s (%s): re-encode raised %r" % (case["name"], tag, e)))
    # ---- (d) a received message (body not looked at yet) is given other extra header bytes and sent on: same blocks, new extra ----
    if not out:
        new_extra = (case["extra"] + b"\x07") if len(case["extra"]) < 255 else case["extra"][:-1]
        try:
            m3 = DESERS[True].deserialize(dg)
            m3.extra = new_extra
            m4 = DESERS[False].deserialize(bytes(SER.serialize(m3)))
            for loc, why in gt.compare_decoded(dict(case, extra=new_extra), m4)[:2]:
                out.append(("re-headed:value:%s" % (loc.split(":")[-1] if ":" in loc else "structure"),
                            "%s with its extra header bytes replaced (%d -> %d bytes) before its body was parsed: %s: %s" % (
                                case["name"], len(case["extra"]), len(new_extra), loc, why)))
            if bytes(m4.extra) != new_extra:
                out.append(("re-headed:extra", "extra %r != %r" % (bytes(m4.extra)[:20], new_extra[:20])))
        except Exception as e:
            out.append(("re-headed:raises:%s" % type(e).__name__, "%s: replacing the extra header bytes of a received message and re-encoding raised %r" % (case["name"], e)))
    # de-duplicate (both modes usually agree)
    seen, uniq = set(), []
    for s, m in out:
        if s not in seen:
            seen.add(s)
            uniq.append((s, m))
    return uniq


def body_for(ctx, profile):
    def body(case):
        cls = gt.case_classes(case)
        if profile == "fill":
            cls.append("fill_cases")
        if case.get("fault"):
            # performed here for the class counter; laws() performs it again just before encoding (idempotent for the law)
            cls.append("after_fault:%s:%s" % (case["fault"], fault_then(case)))
        ctx.case(case, nontrivial=gt.is_nontrivial(case), classes=cls + ["tmpl:" + case["name"]])
        return laws(case)
    return body


def shards(tier):
    sh = []
    vnames = [n for n in gt.ALL_NAMES if any(b.block_type == MsgBlockType.MBT_VARIABLE for b in gt.TEMPLATES[n].blocks)]
    if tier == "thorough":
        names = gt.ALL_NAMES
        per = 31
        for i in range(0, len(names), per):
            sh.append({"kind": "gen", "names": names[i:i + per], "profile": "full", "n": per * 120})
            sh.append({"kind": "gen", "names": names[i:i + per], "profile": "fill", "n": per * 60})
            sh.append({"kind": "gen", "names": names[i:i + per], "profile": "full", "n": per * 30, "fault": True})
        for i in range(0, len(vnames), 13):
            sh.append({"kind": "counts", "names": vnames[i:i + 13]})
    else:
        for i in range(12):
            sh.append({"kind": "gen", "names": None, "profile": "full", "n": 1300})
        for i in range(4):
            sh.append({"kind": "gen", "names": None, "profile": "fill", "n": 1300})
        for i in range(2):
            sh.append({"kind": "gen", "names": None, "profile": "full", "n": 1000, "fault": True})
        # a rotating slice of the Variable-block templates gets the full 0..255 count sweep
        for i in range(8):
            sh.append({"kind": "counts", "names": vnames[i::41]})
    return sh


def _counts(ctx, names):
    """every block count 0..255 for the first Variable block of each named template, default-filled values"""
    n = 0
    for name in names:
        tmpl = gt.TEMPLATES[name]
        vb = [b for b in tmpl.blocks if b.block_type == MsgBlockType.MBT_VARIABLE]
        target = vb[0]
        for count in range(256):
            blocks = []
            for b in tmpl.blocks:
                c = count if b is target else (1 if b.block_type == 0 else (b.number if b.block_type == 1 else 0))
                blocks.append([b.name, [{} for _ in range(c)]])
            case = {"name": name, "flags": 0, "pid": count + 1, "acks": [], "extra": b"", "fill": True, "blocks": blocks}
            if len(gt.ref_body(case)) > 60000:
                continue
            n += 1
            res = laws(case)
            if res:
                ctx.report(case, res)
    ctx.bulk(n, n, {"count_sweep": n}, {"count_sweep": "every count 0..255 of the first Variable block, default-filled", "templates": names[:4]})


def run_shard(ctx, shard):
    if shard["kind"] == "counts":
        _counts(ctx, shard["names"])
        return
    strat = gt.message_case(names=shard["names"], profile=shard["profile"])
    if shard.get("fault"):
        strat = st.tuples(strat, st.sampled_from(FAULTS)).map(lambda t: dict(t[0], fault=t[1]))
    hyp_run(ctx, strat, body_for(ctx, shard["profile"]), shard["n"])
    # fold per-template / per-type counters into two summary classes


def summarize(classes):
    names = [k for k in classes if k.startswith("tmpl:")]
    classes["templates_seen"] = len(names)
    for k in names:
        del classes[k]


def replay(ctx, case):
    return laws(case)
