"""C15 - intercepted HTTP flows are handed back exactly once, state intact."""
import asyncio
import copy
import gc
import itertools
import pickle
import types
import weakref
from collections import Counter

import mitmproxy.http
from hypothesis import strategies as st
from mitmproxy.http import HTTPFlow
from mitmproxy.test import tutils

from hippolyzer.lib.base import llsd
from hippolyzer.lib.base.datatypes import UUID
from hippolyzer.lib.proxy.caps import CapType, CapData, SerializedCapData
from hippolyzer.lib.proxy.http_flow import HippoHTTPFlow
import hippolyzer.lib.proxy.http_proxy as http_proxy

from vlib.http_harness import HttpWorld, PicklingQueue
from vlib.proxy_harness import ensure_loop
from vlib.runner import hyp_run

PROPERTY = "C15"
LEVEL = "fault_enumeration"
RULE = ("flows of every routing kind (region cap, Seed, EventQueueGet, temporary uploader cap, asset cap, asset wrapper cap, "
        "proxy-only cap, login, unknown host, scripted-object reply tagged FirestormBridge with a not-yet-connected session listed before the owner's; injected / browser flags; LLSD, malformed and empty bodies) pushed as request and "
        "response events through MITMProxyEventManager over pickling queues, with ONE deviating behaviour per run placed at each "
        "injection point: addon handle_http_request / handle_http_response hook of 3 addons {raise, take and never release, take "
        "and release after k further events, take + release twice, take twice, inject response, rewrite URL, set metadata, close "
        "the session before releasing, take and release inside the hook, attribute to an owner without a cap name}, session / region http_message_handler subscriber raising, message logger raising, "
        "malformed Seed / EventQueueGet body; optionally an abandoned time-limited taking waiter on the session's HTTP handler whose limit has passed.  Quick = every (flow kind x injection point x behaviour); thorough = pairs + random "
        "programs.  Plus the get_state/from_state law on generated flows and the proxy-side callback pump with corrupt states.  "
        "Non-trivial = run with a deviating behaviour; distinct by program.")
ASSUMPTIONS = [
    "the mitmproxy child process is not started; its queues are replaced by in-process pickling queues and IPCInterceptionAddon's "
    "callback pump is driven in-process with a stubbed parent-process watcher",
]
FLOORS = {"quick": {"programs": 1200, "taken": 200, "released_later": 150, "hook_raised": 30, "state_law": 500, "pump_runs": 100, "bridge_attributed": 40, "stale_waiter": 40}}
MANIFEST = {
    "text": "Fault enumeration: one deviating behaviour at every handler / hook point for every flow kind (thorough: pairs), counting "
            "hand-backs on the queue to the HTTP proxy process per event, and comparing the routing metadata that crosses the "
            "process boundary; the proxy-side pump is checked to resume the original flow exactly once even for corrupt state.",
    "note": "No real child process (offline; the repository's own integration test for it is in the baseline's always-fail list).",
    "technique": "fault-placement enumeration + Hypothesis programs; exactly-once counting oracle and state-transfer metamorphic law",
}

FLOW_KINDS = ["region_cap", "seed", "eq", "uploader_temp", "asset_plain", "asset_wrapper", "proxy_only", "login", "unknown", "bridge"]
HOOK_BEHAVIOURS = ["raise", "take_never", "take_release_later", "take_release_twice", "take_twice", "inject_response", "rewrite_url",
                   "set_metadata", "take_close_session_release", "return_true", "set_cap_data", "own_and_release_now", "set_owner_only"]
POINTS = [("hook", i, stage) for i in range(3) for stage in ("request", "response")] + \
         [("session_sub",), ("region_sub",), ("logger",), ("malformed_body",)]


class Addon:
    def __init__(self, idx, run):
        self.idx = idx
        self.run = run

    def _do(self, stage, flow):
        if flow.id != self.run.target_id:
            return None         # deviations are aimed at the flow under test only
        b = self.run.behaviour_at(("hook", self.idx, stage))
        self.run.invoked.append((self.idx, stage, b))
        if b is None:
            return None
        run = self.run
        run.counts["deviations"] += 1
        if b == "raise":
            run.counts["hook_raised"] += 1
            raise RuntimeError("addon %d fails in %s hook" % (self.idx, stage))
        if b == "return_true":
            return True
        if b == "own_and_release_now":
            # ownership taken and given back inside the hook itself: that release is the one hand-back
            flow.take()
            flow.resume()
            run.counts["taken"] += 1
            return None
        if b == "set_owner_only":
            # an addon attributes a URL that is no capability to a session and region (owner known, no cap name)
            if stage == "request":
                other = run.w.sessions[1]
                flow.cap_data = CapData(region=weakref.ref(other.regions[0]), session=weakref.ref(other))
                run.expect_owner = (str(other.id), str(other.regions[0].circuit_addr))
            return None
        if b.startswith("take"):
            flow.take()
            run.taken.append(flow)
            run.counts["taken"] += 1
            if b == "take_twice":
                try:
                    flow.take()
                    run.errors.append(("ownership:take-twice-allowed", "a second take() on a taken flow was accepted"))
                except AssertionError:
                    pass
            return None
        if b == "inject_response":
            flow.response = mitmproxy.http.Response.make(418, b"injected by addon", {"X-Addon": str(self.idx)})
            return None
        if b == "rewrite_url":
            flow.request.url = flow.request.url + "?rewritten=%d" % self.idx
            run.expect_url_suffix = "?rewritten=%d" % self.idx
            return None
        if b == "set_cap_data":
            # an addon re-attributes the flow (what the proxy itself does for FirestormBridge / login responses)
            if stage == "response":
                other = run.w.sessions[1]
                flow.cap_data = CapData("AddonCap%d" % self.idx, weakref.ref(other.regions[0]), weakref.ref(other), "https://addon.example/cap", CapType.NORMAL)
                run.expect_cap = ("AddonCap%d" % self.idx, str(other.id), str(other.regions[0].circuit_addr))
            return None
        if b == "set_metadata":
            flow.can_stream = False
            flow.metadata["addon_note"] = "n%d" % self.idx
            return None
        return None

    def handle_http_request(self, session_manager, flow):
        return self._do("request", flow)

    def handle_http_response(self, session_manager, flow):
        return self._do("response", flow)


class Logger:
    def __init__(self, run):
        self.run = run
        self.calls = 0

    def log_http_response(self, flow):
        self.calls += 1
        if self.run.behaviour_at(("logger",)) is not None:
            self.run.counts["deviations"] += 1
            raise RuntimeError("message logger fails")

    def __getattr__(self, name):
        if name.startswith("log_"):
            return lambda *a, **kw: None
        raise AttributeError(name)


class Run:
    def __init__(self, program):
        self.program = program
        self.faults = {tuple(k): v for k, v in program["faults"]}
        self.counts = Counter()
        self.invoked = []
        self.taken = []
        self.errors = []
        self.expect_url_suffix = None
        self.expect_cap = None
        self.expect_owner = None
        self.target_id = None
        self.addons = [Addon(i, self) for i in range(3)]
        self.logger = Logger(self)
        self.w = HttpWorld(2, 2, addons=self.addons, logger=self.logger if program.get("logger", True) else None)
        self._setup_caps()
        if program["kind"] == "bridge":
            for sx in self.w.sessions:
                sx.main_region = sx.regions[program.get("pending_at", 0) % len(sx.regions)]     # the avatar is somewhere
            # a session whose login went through but whose viewer has not connected yet, listed before the established ones
            pend = self.w.sm.create_session({
                "session_id": UUID(int=0x1ff), "secure_session_id": UUID(int=0x2ff), "agent_id": UUID(int=0x3ff), "circuit_code": 199,
                "sim_ip": "10.1.0.9", "sim_port": 13900, "region_x": 1900, "region_y": 1000,
                "seed_capability": "https://sim-9-0.example.com:12043/cap/seed-9-0"})
            self.w.sm.sessions.remove(pend)
            self.w.sm.sessions.insert(program.get("pending_at", 0) % (len(self.w.sm.sessions) + 1), pend)
        if program.get("stale_waiter"):
            if program["stale_waiter"] == "two_names":
                # ... or waited (taking) for whichever of several capabilities answers first, got one, and is finished
                names = ("WaiterCap", "FetchInventory2", "Seed", "EventQueueGet", "UploadBakedTextureUploader", "GetTextureProxyWrapper",
                         "HippoOnly", "FirestormBridge")
                fut = self.sess.http_message_handler.wait_for(names, take=True)
                self.region.register_cap("WaiterCap", "https://sim-0-1.example.com:12043/cap/waitercap", CapType.NORMAL)
                f = self.w.make_flow("GET", "https://sim-0-1.example.com:12043/cap/waitercap")
                items, _ = self.w.pump("request", f.get_state())
                f2 = HTTPFlow.from_state(items[0][2])
                f2.response = tutils.tresp(status_code=200, content=b"<llsd><undef /></llsd>")
                self.w.pump("response", f2.get_state())
                if fut.done() and not fut.cancelled() and fut.exception() is None:
                    fut.result().resume()
                else:
                    self.errors.append(("harness:waiter-not-served", "the two-name waiter did not get its flow"))
                return
            # somebody waited (taking) for a response on this session with a time limit, gave up early, and the time limit has long passed
            loop = ensure_loop()

            async def go():
                if program["stale_waiter"] == "subscribe_async":
                    # ... or listened (taking) inside a `with` block that was left through an exception
                    try:
                        with self.sess.http_message_handler.subscribe_async(("*",), take=True) as get_flow:
                            await asyncio.wait_for(get_flow(), 0.01)
                    except asyncio.TimeoutError:
                        pass
                    return
                fut = self.sess.http_message_handler.wait_for(("*",), timeout=0.01, take=True)
                fut.cancel()
                await asyncio.sleep(0.05)
            loop.run_until_complete(go())

    def behaviour_at(self, point):
        return self.faults.get(point)

    def _setup_caps(self):
        w = self.w
        self.sess = w.sessions[0]
        self.region = self.sess.regions[1]
        r = self.region
        r.update_caps({"FetchInventory2": "https://sim-0-1.example.com:12043/cap/fetchinv", "EventQueueGet": "https://sim-0-1.example.com:12043/cap/eq",
                       "ViewerAsset": "https://assets.example.com/cap/viewerasset", "GetTexture": "https://assets.example.com/cap/gettexture"})
        r.register_cap("UploadBakedTextureUploader", "https://sim-0-1.example.com:12043/cap/uploader-1", CapType.TEMPORARY)
        self.wrapper_url = r.register_wrapper_cap("GetTexture")
        self.proxy_url = r.register_proxy_cap("HippoOnly")
        for name, handler in (("session_sub", self.sess.http_message_handler), ("region_sub", r.http_message_handler)):
            def mk(name=name):
                def cb(flow):
                    self.invoked.append((name, "response", self.behaviour_at((name,))))
                    if self.behaviour_at((name,)) is not None:
                        self.counts["deviations"] += 1
                        raise RuntimeError("%s subscriber fails" % name)
                return cb
            handler.subscribe("*", mk())

    def build_flow(self):
        p = self.program
        kind = p["kind"]
        w = self.w
        meta = {"request_injected": p.get("request_injected", False), "from_browser": p.get("from_browser", False)}
        body = b""
        method = "GET"
        hdrs = {}
        resp_body = llsd.format_xml({"ok": 1})
        malformed = self.behaviour_at(("malformed_body",)) is not None
        if kind == "region_cap":
            url = "https://sim-0-1.example.com:12043/cap/fetchinv/items"
            method, body = "POST", llsd.format_xml({"items": []})
        elif kind == "seed":
            url = self.region.caps["Seed"][1]
            method = "POST"
            body = b"<llsd><array><string>FetchInv" if malformed else llsd.format_xml(["FetchInventory2", "HippoOnly", "GetTexture"])
            resp_body = b"<llsd><map><key>Fetch" if malformed else llsd.format_xml({"FetchInventory2": "https://sim-0-1.example.com:12043/cap/fetchinv-2"})
        elif kind == "eq":
            url = "https://sim-0-1.example.com:12043/cap/eq"
            method = "POST"
            body = b"<llsd><map><key>ack</k" if malformed else llsd.format_xml({"ack": None, "done": False})
            resp_body = b"<llsd><map><key>events</key><arr" if malformed else llsd.format_xml({"id": 1, "events": [{"message": "FooEvent", "body": {"a": 1}}]})
        elif kind == "uploader_temp":
            url = "https://sim-0-1.example.com:12043/cap/uploader-1"
            method, body = "POST", b"\x00binary upload"
        elif kind == "asset_plain":
            url = "https://assets.example.com/cap/viewerasset/?texture_id=1"
            resp_body = b"\x00\x01asset"
        elif kind == "asset_wrapper":
            url = self.wrapper_url + "/?texture_id=1"
            resp_body = b"\x00\x01asset"
        elif kind == "proxy_only":
            url = self.proxy_url + "/do"
        elif kind == "login":
            url = "https://login.example.com/cgi-bin/login.cgi"
            method = "POST"
            hdrs = {"Content-Type": "text/xml"}
            body = b'<?xml version="1.0"?><methodCall><methodName>login_to_simulator</methodName></methodCall>'
            resp_body = b"<?xml version='1.0'?><methodResponse><fault><value><struct></struct></value></fault></methodResponse>"
        elif kind == "bridge":
            url = "http://sim-lsl.example.org:12046/cap/0f0f0f0f"
            method, body = "POST", b"<bridgeURL>x</bridgeURL>"
            resp_body = b"<bridgeResponse/>"
        else:
            url = "http://unknown.example.org/some/path"
            resp_body = b"hello"
        if malformed and kind not in ("seed", "eq"):
            body = b"\xff\xfe not llsd"
        return w.make_flow(method, url, body=body, headers=hdrs, metadata=meta), resp_body

    def close(self):
        self.w.close()


def handbacks_of(items, flow_id):
    return [it for it in items if it[0] == "callback" and it[1] == flow_id]


def run_program(program):
    run = Run(program)
    w = run.w
    out = list(run.errors)
    try:
        flow, resp_body = run.build_flow()
        fid = flow.id
        run.target_id = fid
        kind = program["kind"]
        state = flow.get_state()
        pending_release = None
        bridge_tagged = False
        for stage in ("request", "response"):
            if stage == "response":
                # the proxy process got the flow back; unless a response was injected the upstream server answers
                f2 = HTTPFlow.from_state(copy.deepcopy(state))
                if f2.metadata.get("response_injected") and f2.response is not None:
                    if kind.startswith("asset"):
                        break       # mitmproxy side does not intercept injected asset responses
                else:
                    f2.response = tutils.tresp(status_code=program.get("status", 200), content=resp_body)
                    f2.response.headers["Content-Type"] = "application/llsd+xml"
                    if kind == "bridge" and run.sess is not None and not f2.metadata.get("cap_data_ser") and not f2.metadata.get("from_browser") \
                            and not f2.metadata.get("request_injected"):
                        # what IPCInterceptionAddon.responseheaders does for a scripted object's reply
                        f2.response.headers["X-SecondLife-Object-Name"] = "#Firestorm LSL Bridge v2.27"
                        f2.response.headers["X-SecondLife-Owner-Key"] = str(run.sess.agent_id)
                        f2.metadata["cap_data_ser"] = SerializedCapData(cap_name="FirestormBridge")
                        bridge_tagged = True
                state = f2.get_state()
            run.invoked.clear()
            n_taken_before = len(run.taken)
            items, exc = w.pump(stage, state)
            mine = handbacks_of(items, fid)
            was_taken = len(run.taken) > n_taken_before
            behaviour = None
            for k, v in run.faults.items():
                if k[0] == "hook" and k[2] == stage and any(i[0] == k[1] and i[1] == stage and i[2] == v for i in run.invoked):
                    behaviour = v
            if not was_taken:
                if len(mine) != 1:
                    out.append(("handback:%s:%s" % ("none" if not mine else "multiple", stage),
                                "%s %s event: handed back %d times right after handling (exception %r, faults %r)" % (
                                    kind, stage, len(mine), exc, program["faults"])))
                    break
                state = mine[0][2]
            else:
                if mine:
                    out.append(("handback:taken-flow-returned:%s" % stage, "%s %s event: flow was taken by an addon but handed back %d times" % (kind, stage, len(mine))))
                    break
                held = run.taken[-1]
                # further events happen while the addon holds the flow
                k_events = program.get("later", 1)
                for j in range(k_events):
                    other = w.make_flow("GET", "http://unknown.example.org/other/%d" % j)
                    it2, _ = w.pump("request", other.get_state())
                    if handbacks_of(it2, fid):
                        out.append(("handback:early", "a held flow was handed back while other events were processed"))
                    if len(handbacks_of(it2, other.id)) != 1:
                        out.append(("handback:other-event", "an unrelated event was handed back %d times while a flow was held" % len(handbacks_of(it2, other.id))))
                if behaviour == "take_never":
                    break
                if behaviour == "take_close_session_release":
                    # the session goes away while the addon still holds the flow
                    sess = run.sess
                    w.sm.close_session(sess)
                    w.sessions.remove(sess)
                    run.sess = run.region = None
                    del sess
                    gc.collect()
                before = w.to_proxy.put_count
                try:
                    held.resume()
                except Exception as e:
                    out.append(("release:raises:%s" % type(e).__name__, "resume() of a held %s flow raised %r" % (kind, e)))
                n = w.to_proxy.put_count - before
                run.counts["released_later"] += 1
                if n != 1:
                    out.append(("handback:on-release:%d" % n, "releasing a held %s flow put %d items on the queue" % (kind, n)))
                    break
                rel = pickle.loads(w.to_proxy.items[-1])
                if rel[0] != "callback" or rel[1] != fid:
                    out.append(("handback:on-release:wrong-item", "release produced %r" % (rel[:2],)))
                    break
                state = rel[2]
                if behaviour == "take_release_twice":
                    before = w.to_proxy.put_count
                    try:
                        held.resume()
                        out.append(("ownership:resume-twice-allowed", "a second resume() was accepted"))
                    except AssertionError:
                        pass
                    if w.to_proxy.put_count != before:
                        out.append(("handback:duplicate-on-second-release", "second resume() put another item on the queue"))
            # ---- state that came back ----
            back = HTTPFlow.from_state(copy.deepcopy(state))
            if run.expect_url_suffix and not back.request.url.endswith(run.expect_url_suffix) and kind != "asset_wrapper":
                out.append(("state:url-rewrite-lost", "addon's URL rewrite did not survive: %s" % back.request.url))
            if run.expect_url_suffix and kind == "asset_wrapper" and stage == "request":
                # the wrapper branch swaps the host (rewrite strategy) or answers 307 (redirect strategy); either way the
                # addon's rewrite of path/query is part of the request now
                loc = back.response.headers.get("Location") if back.response is not None and back.response.status_code == 307 else None
                if not back.request.url.endswith(run.expect_url_suffix) or (loc is not None and not loc.endswith(run.expect_url_suffix)):
                    out.append(("state:url-rewrite-lost:wrapper", "addon's URL rewrite did not survive the wrapper handling: url %s, Location %r" % (
                        back.request.url, loc)))
            if run.expect_cap is not None and stage == "response" and kind != "login":
                ser2 = back.metadata.get("cap_data_ser")
                got_cap = (ser2.cap_name, ser2.session_id, ser2.region_addr) if ser2 else None
                if got_cap != run.expect_cap:
                    out.append(("state:reattribution-lost", "flow re-attributed to %r in the main process came back as %r" % (run.expect_cap, got_cap)))
            if run.expect_owner is not None and run.expect_cap is None and kind != "login":
                ser2 = back.metadata.get("cap_data_ser")
                got_o = (ser2.session_id, ser2.region_addr) if ser2 else None
                if got_o != run.expect_owner:
                    out.append(("state:owner-lost:%s" % stage, "flow attributed by an addon to session / region %r came back from the %s event as %r" % (
                        run.expect_owner, stage, got_o)))
            if behaviour == "inject_response" and kind != "asset_wrapper" and (back.response is None or back.response.status_code != 418 or not back.metadata.get("response_injected")):
                out.append(("state:injected-response-lost", "addon's injected response did not survive (%r, injected=%r)" % (
                    back.response and back.response.status_code, back.metadata.get("response_injected"))))
            if behaviour == "set_metadata" and (back.metadata.get("can_stream") is not False or back.metadata.get("addon_note") is None):
                out.append(("state:metadata-lost", "metadata set by the addon did not survive"))
            if kind in ("region_cap", "seed", "eq", "uploader_temp", "asset_wrapper", "proxy_only") and run.expect_cap is None and run.sess is not None \
                    and run.expect_owner is None \
                    and behaviour != "take_close_session_release":
                # what the main process will see when the flow comes in again: the very session and region it belonged to
                hf = HippoHTTPFlow.from_state(copy.deepcopy(state), w.sm)
                cd = hf.cap_data
                got_r = cd.region() if cd and cd.region else None
                got_s = cd.session() if cd and cd.session else None
                if got_r is not run.region or got_s is not run.sess:
                    out.append(("state:owner-objects", "%s flow rehydrates to region %r / session %r, it belongs to %r / %r" % (
                        kind, got_r, got_s, run.region, run.sess)))
            if kind == "bridge" and stage == "response" and bridge_tagged and program.get("status", 200) == 200 and run.expect_cap is None \
                    and run.sess is not None and behaviour != "take_close_session_release":
                ser2 = back.metadata.get("cap_data_ser")
                got_b = (ser2.cap_name, ser2.session_id, ser2.region_addr) if ser2 else None
                want_b = ("FirestormBridge", str(run.sess.id), str(run.sess.main_region.circuit_addr))
                if got_b != want_b:
                    out.append(("state:bridge-owner", "scripted-object reply with owner key %s came back attributed to %r, expected %r" % (
                        run.sess.agent_id, got_b, want_b)))
                run.counts["bridge_attributed"] += 1
            ser = back.metadata.get("cap_data_ser")
            want = {"region_cap": "FetchInventory2", "seed": "Seed", "eq": "EventQueueGet", "uploader_temp": "UploadBakedTextureUploader",
                    "asset_plain": "ViewerAsset", "asset_wrapper": "GetTextureProxyWrapper", "proxy_only": "HippoOnly", "login": "LoginRequest",
                    "unknown": None, "bridge": None}[kind]
            if kind == "login" and (program.get("from_browser") or program.get("request_injected")):
                want = None       # not treated as a login request by design
            got = ser.cap_name if ser else None
            if kind == "login" and program["faults"]:
                want = got        # login sniffing looks at URL and body, which the deviating behaviours may have changed
            if stage == "request" and got != want and run.expect_owner is None and not (kind == "uploader_temp" and stage == "response"):
                out.append(("state:cap-name", "%s flow came back attributed to %r (expected %r)" % (kind, got, want)))
            if out:
                break
    finally:
        run.close()
    cls = ["programs"] + [k for k in ("taken", "released_later", "hook_raised", "bridge_attributed") if run.counts[k]]
    if program.get("stale_waiter"):
        cls.append("stale_waiter")
    return out, cls, run.counts


# ---- state transfer law --------------------------------------------------------------------------------------------
def state_law(desc):
    w = HttpWorld(2, 2)
    out = []
    try:
        sess = w.sessions[desc["s"]]
        region = sess.regions[desc["r"]]
        base = "https://sim-%d-%d.example.com:12043/cap/x%d" % (desc["s"], desc["r"], desc["n"])
        typ = CapType[desc["type"]]
        name = desc["name"]
        region.register_cap(name, base, typ)
        url = base + desc["suffix"]
        f = w.make_flow(desc["method"], url, body=desc["body"], metadata={"request_injected": desc["req_inj"], "from_browser": desc["browser"]})
        flow = HippoHTTPFlow.from_state(f.get_state(), w.sm)
        flow.cap_data = w.sm.resolve_cap(url) if typ != CapType.TEMPORARY else w.sm.resolve_cap(url)
        attrib = desc.get("attrib", "resolved")
        if attrib == "session_only":
            # what the login response handler attaches: the new session, no region yet
            flow.cap_data = CapData("LoginRequest", session=weakref.ref(sess))
        elif attrib == "no_url":
            # what the proxy attaches to a scripted object's reply: session and region, no URL
            flow.cap_data = CapData(cap_name="FirestormBridge", region=weakref.ref(region), session=weakref.ref(sess))
        flow.can_stream = desc["can_stream"]
        if desc["rewrite"]:
            flow.request.url = url + "&moved=1" if "?" in url else url + "?moved=1"
        if desc["inject"]:
            flow.response = mitmproxy.http.Response.make(desc["status"], desc["resp_body"], {"X-I": "1"})
        cd = flow.cap_data
        st1 = pickle.loads(pickle.dumps(flow.get_state()))
        flow2 = HippoHTTPFlow.from_state(st1, w.sm)
        cd2 = flow2.cap_data
        pairs = [
            ("cap_name", cd.cap_name, cd2.cap_name if cd2 else None), ("cap_type", cd.type, cd2.type if cd2 else None),
            ("base_url", cd.base_url, cd2.base_url if cd2 else None),
            ("session", cd.session and cd.session(), cd2 and cd2.session and cd2.session()),
            ("region", cd.region and cd.region(), cd2 and cd2.region and cd2.region()),
            ("request_injected", flow.request_injected, flow2.request_injected), ("response_injected", flow.response_injected, flow2.response_injected),
            ("can_stream", flow.can_stream, flow2.can_stream), ("from_browser", flow.from_browser, flow2.from_browser),
            ("url", flow.request.url, flow2.request.url), ("method", flow.request.method, flow2.request.method),
            ("body", flow.request.content, flow2.request.content),
            ("response_status", flow.response and flow.response.status_code, flow2.response and flow2.response.status_code),
            ("response_body", flow.response and flow.response.content, flow2.response and flow2.response.content),
        ]
        for label, a, b in pairs:
            if label in ("session", "region"):
                if a is not b:
                    out.append(("state-law:%s" % label, "%s identity not preserved across the state transfer (%r -> %r)" % (label, a, b)))
            elif a != b:
                out.append(("state-law:%s" % label, "%s: %r became %r across the state transfer" % (label, a, b)))
        # cap_data still reachable through get_state a second time (get_state pops and restores it)
        flow.get_state()
        if flow.cap_data is not cd:
            out.append(("state-law:cap-data-not-restored", "get_state() did not put cap_data back"))
    finally:
        w.close()
    return out


STATE_DESC = st.fixed_dictionaries({
    "s": st.integers(0, 1), "r": st.integers(0, 1), "n": st.integers(0, 99), "type": st.sampled_from(["NORMAL", "TEMPORARY", "WRAPPER", "PROXY_ONLY"]),
    "name": st.sampled_from(["FetchInventory2", "GetTextureProxyWrapper", "ViewerAsset", "HippoOnly", "UploaderX"]),
    "suffix": st.sampled_from(["", "/x", "?a=b"]), "method": st.sampled_from(["GET", "POST"]), "body": st.binary(max_size=20),
    "req_inj": st.booleans(), "browser": st.booleans(), "can_stream": st.booleans(), "rewrite": st.booleans(), "inject": st.booleans(),
    "status": st.sampled_from([200, 307, 404, 500]), "resp_body": st.binary(max_size=20),
    "attrib": st.sampled_from(["resolved", "resolved", "resolved", "session_only", "no_url"]),
})


# ---- proxy-side callback pump ----------------------------------------------------------------------------------------
def pump_law(seq):
    """IPCInterceptionAddon._pump_callbacks resumes the original flow exactly once per callback, even when set_state raises"""
    loop = ensure_loop()
    ctx = types.SimpleNamespace(from_proxy_queue=PicklingQueue(), to_proxy_queue=PicklingQueue(), shutdown_signal=None,
                                mitmproxy_ready=types.SimpleNamespace(set=lambda: None))
    addon = http_proxy.IPCInterceptionAddon(ctx)
    out = []
    resumes = Counter()
    flows = {}
    w = HttpWorld(1, 1)
    try:
        for i, kind in enumerate(seq):
            f = w.make_flow("GET", "http://h.example/%d" % i)
            flows[i] = f
            addon.request(f)          # intercepts and queues it for the main process
            orig_resume = f.resume

            def counting(f=f, i=i, orig=orig_resume):
                resumes[i] += 1
                return orig()
            f.resume = counting
            state = f.get_state()
            if kind == "corrupt":
                state = {"bogus": 1}
            elif kind == "corrupt_partial":
                state = dict(state)
                state["request"] = {"broken": True}
            ev = "preempt" if kind == "preempt" else "callback"
            ctx.to_proxy_queue.put((ev, f.id, state))
            if kind == "unknown_event":
                ctx.to_proxy_queue.put(("nonsense", f.id, state))

        class Watcher:
            def __init__(self, sig):
                pass

            def check_shutdown_needed(self):
                return ctx.to_proxy_queue.size() == 0
        old_w = http_proxy.ParentProcessWatcher
        old_master = getattr(http_proxy.mitmproxy.ctx, "master", None)
        http_proxy.ParentProcessWatcher = Watcher
        http_proxy.mitmproxy.ctx.master = types.SimpleNamespace(shutdown=lambda: None, commands=types.SimpleNamespace(call=lambda *a: None))
        try:
            loop.run_until_complete(addon._pump_callbacks())
        except Exception as e:
            out.append(("pump:raises:%s" % type(e).__name__, "callback pump raised %r" % (e,)))
        finally:
            http_proxy.ParentProcessWatcher = old_w
            if old_master is not None:
                http_proxy.mitmproxy.ctx.master = old_master
        for i, kind in enumerate(seq):
            want = 1
            if resumes[i] != want:
                out.append(("pump:resume-count:%s" % kind, "flow %d (%s) was resumed %d times by the callback pump" % (i, kind, resumes[i])))
    finally:
        w.close()
    return out


# ---- shards ------------------------------------------------------------------------------------------------------------
def single_programs():
    for kind in FLOW_KINDS:
        yield {"kind": kind, "faults": []}
        yield {"kind": kind, "faults": [], "stale_waiter": True}
        yield {"kind": kind, "faults": [], "stale_waiter": "subscribe_async"}
        yield {"kind": kind, "faults": [], "stale_waiter": "two_names"}
        for point in POINTS:
            behaviours = HOOK_BEHAVIOURS if point[0] == "hook" else ["raise"]
            for b in behaviours:
                for later in ((0, 2) if b.startswith("take") else (1,)):
                    yield {"kind": kind, "faults": [[list(point), b]], "later": later}


def shards(tier):
    th = tier == "thorough"
    sh = [{"kind": "single", "lo": i, "step": 12} for i in range(12)]
    sh.append({"kind": "variants"})
    sh += [{"kind": "random", "n": 4000 if th else 400} for _ in range(4 if not th else 12)]
    sh += [{"kind": "state", "n": 6000 if th else 300} for _ in range(2)]
    sh.append({"kind": "pump", "n": 3000 if th else 120})
    return sh


PROGRAM = st.fixed_dictionaries({
    "kind": st.sampled_from(FLOW_KINDS),
    "faults": st.lists(st.tuples(st.sampled_from(POINTS).map(list), st.sampled_from(HOOK_BEHAVIOURS)), max_size=3, unique_by=lambda t: tuple(t[0])).map(
        lambda l: [[p, (b if p[0] == "hook" else "raise")] for p, b in l]),
    "later": st.integers(0, 3), "status": st.sampled_from([200, 200, 404, 499]), "request_injected": st.booleans(), "from_browser": st.booleans(),
    "logger": st.booleans(), "stale_waiter": st.integers(0, 11).map(lambda i: {0: True, 1: "subscribe_async", 2: "two_names"}.get(i, False)), "pending_at": st.integers(0, 2),
})


def _exclusive_take(program):
    """at most one taking behaviour per stage (two addons cannot both own a flow)"""
    seen = set()
    for p, b in program["faults"]:
        if b == "own_and_release_now" and any(q[0] == "hook" and q[2] == p[2] and list(q) != list(p) for q, _ in program["faults"]):
            # the flow goes back at the moment of that release: what other hooks of the same stage do afterwards cannot be in it
            return False
    for p, b in program["faults"]:
        if p[0] == "hook" and b.startswith("take"):
            if p[2] in seen or seen:
                return False
            seen.add(p[2])
    return True


def run_shard(ctx, shard):
    k = shard["kind"]
    if k == "single":
        progs = list(single_programs())[shard["lo"]::shard["step"]]
        n = 0
        cls = Counter()
        for p in progs:
            res, c, counts = run_program(p)
            n += 1
            cls.update(c)
            if res:
                ctx.report(p, res)
        ctx.bulk(n, n, dict(cls), progs[0] if progs else None)
    elif k == "variants":
        n = 0
        cls = Counter()
        for kind in FLOW_KINDS:
            for flags in itertools.product([False, True], repeat=3):
                p = {"kind": kind, "faults": [], "request_injected": flags[0], "from_browser": flags[1], "logger": flags[2]}
                for status in (200, 404):
                    p2 = dict(p, status=status)
                    res, c, counts = run_program(p2)
                    n += 1
                    cls.update(c)
                    if res:
                        ctx.report(p2, res)
        ctx.bulk(n, n, dict(cls), None)
    elif k == "random":
        def body(p):
            if not _exclusive_take(p):
                return []
            res, c, counts = run_program(p)
            ctx.case(p, nontrivial=bool(p["faults"]), classes=c)
            return res
        hyp_run(ctx, PROGRAM, body, shard["n"])
    elif k == "state":
        def body(d):
            ctx.case(d, nontrivial=True, classes=["state_law"])
            return state_law(d)
        hyp_run(ctx, STATE_DESC, body, shard["n"])
    else:
        def body(seq):
            ctx.case(seq, nontrivial=True, classes=["pump_runs"])
            return pump_law(seq)
        hyp_run(ctx, st.lists(st.sampled_from(["ok", "ok", "corrupt", "corrupt_partial", "preempt", "unknown_event"]), min_size=1, max_size=5), body, shard["n"])


def replay(ctx, case):
    if isinstance(case, dict) and "faults" in case:
        if not _exclusive_take(case):
            return []       # outside the generated domain (see _exclusive_take)
        return run_program(case)[0]
    if isinstance(case, dict):
        return state_law(case)
    return pump_law(list(case))
