"""C20 part 1 - inventory models in the legacy text schema, legacy LLSD and AIS LLSD."""
import dataclasses
import datetime as dt
from io import StringIO

from hypothesis import strategies as st

from hippolyzer.lib.base.datatypes import UUID
from hippolyzer.lib.base.inventory import (InventoryModel, InventoryItem, InventoryCategory, InventoryObject, InventoryPermissions,
                                           InventorySaleInfo)
from hippolyzer.lib.base.templates import AssetType, InventoryType, FolderType, SaleType

ASSET_TYPES = list(AssetType)
INV_TYPES = list(InventoryType)
FOLDER_TYPES = list(FolderType)
SALE_TYPES = list(SaleType)

# ---- value domains ------------------------------------------------------------------------------------------------------
# the line format (" %s %[^|]" in the reference implementation, parse_schema_line here) carries a value that has no '|', tab,
# CR or LF and does not start with white space; everything else (blank tail, empty, unicode, NUL) must survive
_LINE_CHARS = st.one_of(st.characters(min_codepoint=0x20, max_codepoint=0x7E, blacklist_characters="|"),
                        st.sampled_from(list(" é中\U0001F600\x00\x0b\x0c\x1f\x85\xa0{}<>&\"'\\")))


def _line_ok(s):
    return "|" not in s and not any(c in s for c in "\t\r\n") and not (s and s[0].isspace())


LINE_TEXT = st.text(_LINE_CHARS, max_size=24).filter(_line_ok)
ANY_TEXT = st.one_of(LINE_TEXT, st.text(max_size=12), st.sampled_from(["a|b", " lead", "tab\there", "nl\nx", "|"]))
UUIDS = st.one_of(st.integers(0, 2 ** 128 - 1).map(lambda i: UUID(int=i)), st.sampled_from([UUID(int=0), UUID(int=1), UUID(int=2 ** 128 - 1)]))
U32 = st.one_of(st.integers(0, 2 ** 32 - 1), st.sampled_from([0, 1, 0x7FFFFFFF, 0x80000000, 0xFFFFFFFF, 0x0008E000]))
S32 = st.one_of(st.integers(-2 ** 31, 2 ** 31 - 1), st.sampled_from([0, 10, -1, 2 ** 31 - 1, -2 ** 31]))
DATES = st.one_of(st.integers(0, 2 ** 31 - 1), st.integers(-2 ** 31, 4102444800), st.sampled_from([0, 1, 1587367239, 2 ** 31 - 1])
                  ).map(lambda s: dt.datetime(1970, 1, 1) + dt.timedelta(seconds=s))
XML_TEXT = st.text(st.one_of(st.characters(min_codepoint=0x20, max_codepoint=0x7E, blacklist_characters="|"), st.sampled_from(list(" é中\U0001F600<>&\"'"))), max_size=12)


def _meta_leaf(for_text):
    t = XML_TEXT if for_text else st.one_of(XML_TEXT, st.text(max_size=8))
    return st.one_of(st.integers(-2 ** 31, 2 ** 31 - 1), t, UUIDS, st.booleans(),
                     st.floats(allow_nan=False, allow_infinity=False, width=64), st.just(None) if not for_text else st.integers(0, 3))


def metadata(for_text):
    t = XML_TEXT.filter(lambda s: s == s.strip() or True) if for_text else st.one_of(XML_TEXT, st.text(max_size=8))
    leaf = _meta_leaf(for_text)
    tree = st.recursive(leaf, lambda ch: st.one_of(st.lists(ch, max_size=3), st.dictionaries(t, ch, max_size=3)), max_leaves=6)
    return st.one_of(st.none(), st.dictionaries(t, tree, max_size=3))


def opt(s, p_none=4):
    return st.one_of(*([s] * p_none), st.none())


@st.composite
def permissions(draw, llsd):
    return {"base_mask": draw(U32), "owner_mask": draw(U32), "group_mask": draw(U32), "everyone_mask": draw(U32), "next_owner_mask": draw(U32),
            "creator_id": draw(UUIDS), "owner_id": draw(UUIDS), "last_owner_id": draw(UUIDS), "group_id": draw(UUIDS),
            "is_owner_group": draw(opt(st.integers(0, 1))) if llsd else None}


@st.composite
def node(draw, form, kind=None, node_id=None, parent_id=None):
    """form in text / legacy / ais; returns a JSON-able description"""
    llsd = form != "text"
    for_text = form == "text"
    text = LINE_TEXT if for_text else ANY_TEXT
    kind = kind or draw(st.sampled_from(["item", "item", "cat", "obj"]))
    node_id = node_id if node_id is not None else draw(UUIDS)
    parent_id = parent_id if parent_id is not None else draw(UUIDS)
    d = {"kind": kind, "id": node_id, "parent_id": parent_id}
    if kind == "cat":
        d.update(type=int(AssetType.CATEGORY) if form == "ais" else int(draw(st.sampled_from(ASSET_TYPES))),
                 pref_type=int(draw(st.sampled_from(FOLDER_TYPES))), name=draw(text), owner_id=draw(opt(UUIDS)),
                 version=draw(S32) if llsd else -1, metadata=draw(metadata(for_text)))
    elif kind == "obj":
        d.update(type=int(draw(st.sampled_from(ASSET_TYPES))), name=draw(text), metadata=draw(metadata(for_text)))
    else:
        typ = draw(opt(st.sampled_from(ASSET_TYPES), 8))
        d.update(permissions=draw(permissions(llsd)), asset_id=draw(opt(UUIDS)), shadow_id=draw(opt(UUIDS)),
                 type=None if typ is None else int(typ), inv_type=draw(opt(st.sampled_from(INV_TYPES).map(int), 8)), flags=draw(opt(U32)),
                 sale_info=draw(opt(st.tuples(st.sampled_from(SALE_TYPES).map(int), S32))), name=draw(opt(text)), desc=draw(opt(text)),
                 metadata=draw(metadata(for_text)), creation_date=draw(opt(DATES)))
        if form == "ais" and typ == AssetType.LINK:
            # AIS represents a link by its target alone: the target must exist and there is nothing else to carry
            if d["asset_id"] is None:
                d["asset_id"] = draw(UUIDS)
            d["permissions"] = {"base_mask": 0xFFFFFFFF, "owner_mask": 0xFFFFFFFF, "group_mask": 0xFFFFFFFF, "everyone_mask": 0,
                                "next_owner_mask": 0xFFFFFFFF, "creator_id": UUID(int=0), "owner_id": UUID(int=0),
                                "last_owner_id": UUID(int=0), "group_id": UUID(int=0), "is_owner_group": None}
            d["sale_info"] = (int(SaleType.NOT), 0)
    return d


@st.composite
def model(draw, form):
    n = draw(st.integers(0, 6))
    ids = draw(st.lists(UUIDS, min_size=n, max_size=n, unique_by=lambda u: u.int))
    nodes = []
    for i, nid in enumerate(ids):
        parent = UUID(int=0) if i == 0 or draw(st.integers(0, 5)) == 0 else ids[draw(st.integers(0, i - 1))]
        nodes.append(draw(node(form, node_id=nid, parent_id=parent)))
    return nodes


def build_node(d):
    if d["kind"] == "cat":
        return InventoryCategory(cat_id=d["id"], parent_id=d["parent_id"], type=AssetType(d["type"]), pref_type=FolderType(d["pref_type"]),
                                 name=d["name"], owner_id=d["owner_id"], version=d["version"], metadata=d["metadata"])
    if d["kind"] == "obj":
        return InventoryObject(obj_id=d["id"], parent_id=d["parent_id"], type=AssetType(d["type"]), name=d["name"], metadata=d["metadata"])
    p = d["permissions"]
    return InventoryItem(
        item_id=d["id"], parent_id=d["parent_id"], permissions=InventoryPermissions(**p), asset_id=d["asset_id"], shadow_id=d["shadow_id"],
        type=None if d["type"] is None else AssetType(d["type"]), inv_type=None if d["inv_type"] is None else InventoryType(d["inv_type"]),
        flags=d["flags"], sale_info=None if d["sale_info"] is None else InventorySaleInfo(sale_type=SaleType(d["sale_info"][0]), sale_price=d["sale_info"][1]),
        name=d["name"], desc=d["desc"], metadata=d["metadata"], creation_date=d["creation_date"])


def build_model(nodes):
    m = InventoryModel()
    for d in nodes:
        m.add(build_node(d))
    return m


def node_diff(a, b):
    if type(a) is not type(b):
        return "type %s != %s" % (type(b).__name__, type(a).__name__)
    for f in dataclasses.fields(a):
        if not f.compare:
            continue
        x, y = getattr(a, f.name), getattr(b, f.name)
        if dataclasses.is_dataclass(x) and dataclasses.is_dataclass(y):
            sub = node_diff(x, y)
            if sub:
                return "%s.%s" % (f.name, sub)
        elif x != y or type(x) is not type(y) and not (isinstance(x, int) and isinstance(y, int)):
            return "%s: sent %r, got %r" % (f.name, x, y)
    return None


def model_diff(m1, m2):
    out = []
    for k, n in m1.nodes.items():
        if k not in m2.nodes:
            out.append(("lost-node:%s" % type(n).__name__, "node %s (%s) missing after parse" % (k, type(n).__name__)))
            continue
        d = node_diff(n, m2.nodes[k])
        if d:
            out.append(("field:%s.%s" % (type(n).__name__, d.split(":")[0]), "node %s %s" % (k, d)))
    for k in m2.nodes:
        if k not in m1.nodes:
            out.append(("invented-node", "node %s appeared" % k))
    if not out and not (m1 == m2):
        out.append(("model-eq", "node-wise equal but InventoryModel.__eq__ says different"))
    return out


def is_ensemble_start(d):
    return d["kind"] == "cat" and d["pref_type"] == int(FolderType.ENSEMBLE_START)


NODE_CLS = {"cat": InventoryCategory, "obj": InventoryObject, "item": InventoryItem}


def laws(form, nodes):
    """returns (results, classes)"""
    out = []
    m = build_model(nodes)
    tag = form
    known_ens = form in ("text", "legacy") and any(is_ensemble_start(d) for d in nodes)
    try:
        if form == "text":
            m2 = InventoryModel.from_str(m.to_str())
            m3 = InventoryModel.from_bytes(m.to_bytes())
        else:
            m2 = InventoryModel.from_llsd(m.to_llsd(form), form)
            m3 = None
    except Exception as e:
        return [("%s:model:raised:%s" % (tag, type(e).__name__), "model round trip raised %r" % (e,))]
    for sig, msg in model_diff(m, m2):
        if known_ens and sig == "field:InventoryCategory.pref_type":
            sig = "ensemble_start-reads-back-as-ensemble_end"
        out.append(("%s:model:%s" % (tag, sig) if not sig.startswith("ensemble") else sig, msg))
    if m3 is not None and not out:
        for sig, msg in model_diff(m, m3):
            if known_ens and sig == "field:InventoryCategory.pref_type":
                continue
            out.append(("%s:model-bytes:%s" % (tag, sig), msg))
    # node-level entry points
    for d in nodes:
        n = build_node(d)
        cls = NODE_CLS[d["kind"]]
        try:
            if form == "text":
                n2 = cls.from_reader(StringIO(n.to_str()), read_header=True)
            else:
                n2 = cls.from_llsd(n.to_llsd(form), form)
        except Exception as e:
            out.append(("%s:node:raised:%s:%s" % (tag, cls.__name__, type(e).__name__), "%s round trip raised %r" % (cls.__name__, e)))
            continue
        if n2 is None:
            out.append(("%s:node:dropped:%s" % (tag, cls.__name__), "%s parsed back as None" % cls.__name__))
            continue
        diff = node_diff(n, n2)
        if diff:
            sig = "%s:node:field:%s.%s" % (tag, cls.__name__, diff.split(":")[0])
            if form in ("text", "legacy") and is_ensemble_start(d) and diff.startswith("pref_type"):
                sig = "ensemble_start-reads-back-as-ensemble_end"
            out.append((sig, diff))
    return out


def classes(form, nodes):
    c = [form, "nodes:%d" % min(len(nodes), 3)]
    for d in nodes:
        c.append("kind:" + d["kind"])
        if d["kind"] == "item":
            for k in ("asset_id", "shadow_id", "type", "inv_type", "flags", "sale_info", "name", "desc", "metadata", "creation_date"):
                c.append("item:%s:%s" % (k, "absent" if d[k] is None else "present"))
            if d["type"] is not None:
                c.append("asset_type:%s" % AssetType(d["type"]).name)
            if d["inv_type"] is not None:
                c.append("inv_type:%s" % InventoryType(d["inv_type"]).name)
            if d["sale_info"] is not None:
                c.append("sale_type:%s" % SaleType(d["sale_info"][0]).name)
        else:
            c.append("asset_type:%s" % AssetType(d["type"]).name)
            if d["kind"] == "cat":
                c.append("folder_type:%s" % FolderType(d["pref_type"]).name)
            if d["metadata"] is not None:
                c.append("container-metadata")
    return c
