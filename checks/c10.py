"""C10 - quantised floats / fixed-point fields are bit-exact inverses on the wire domain."""
import math
import struct
import types

import numpy as np
from hypothesis import strategies as st

import hippolyzer.lib.base.serialization as se
import hippolyzer.lib.base.templates as templates
import hippolyzer.lib.base.llanim as llanim
import hippolyzer.lib.base.mesh as mesh
import hippolyzer.lib.base.objects as objects

from hippolyzer.lib.base.datatypes import Vector2, Vector3

from vlib.discover import walk
from vlib.runner import hyp_run

PROPERTY = "C10"
LEVEL = "exploration"
RULE = ("instances discovered by object-graph reflection from SUBFIELD_SERIALIZERS, templates, llanim, mesh, objects "
        "(distinct by class, wire type, lower, upper, rounding mode, step); for each, EVERY raw value of its 8/16-bit "
        "wire type is decoded and re-encoded (through the adapter and through the reader/writer in both byte orders); "
        "key-frame times additionally over a sweep of fixed + Hypothesis-generated f32 durations; mesh vertex data additionally "
        "through its per-LOD domain (generated Min/Max) with every raw value of every component; mesh vertex weights additionally "
        "as generated whole vertices of 0..4 influences (joints 0..254, raw weights biased high so that raw sums exceed 0xFFFF).  A case is "
        "(instance, raw[, duration]); all are distinct by construction; non-trivial = raw value other than the wire "
        "type's minimum.")
ASSUMPTIONS = [
    "an instance built with a custom step (PackedTERotation: 65536 steps over [-2pi,2pi)) has a half-open declared "
    "range: its upper end is not representable by design, so only its lower end is checked",
    "FixedPoint: the declared range is what the bit layout can hold, raw/2^frac - offset (checked exactly)",
    "a zero-length range (animation duration 0) is degenerate: only decode==0.0 and encode(0.0)==min are required",
]
EXHAUSTIVE = {"quick": True, "thorough": True}
EXHAUSTIVE_PARTS = {"quick": ["every raw value of every discovered instance"],
                    "thorough": ["every raw value of every discovered instance"]}
FLOORS = {"quick": {"instances": 15, "time_durations": 40, "coord_instances": 5, "vertex_raw_sum>0xFFFF": 500, "vertex_influences:4": 300}, "thorough": {"instances": 15, "time_durations": 500, "coord_instances": 5}}
MANIFEST = {
    "text": "Complete enumeration of the raw wire domain (256 or 65,536 values) of every quantised/fixed-point instance "
            "reachable from the templates, animation and mesh codecs, with exact round-trip, monotonicity, end-point and "
            "zero laws; for these finite domains the result is exhaustive, the duration-dependent range is swept; mesh vertex weights "
            "are additionally generated as whole vertices (0..4 influences) and must decode exactly and re-encode byte-identically.",
    "note": "Instance discovery is by reflection (floor of 15 instances guards against silently finding none). "
            "Durations are sampled (fixed list + generated f32), not exhaustive.",
    "technique": "exhaustive enumeration of finite wire domains with round-trip/monotonicity/end-point oracles; Hypothesis for durations, mesh domains and multi-influence vertices",
}


def _prim_name(p):
    return {"B": "U8", "b": "S8", "H": "U16", "h": "S16"}.get(getattr(p, "_struct_fmt", "?").strip("<>!="), repr(p))


def inst_key(o):
    if isinstance(o, se.QuantizedFloat):
        return "%s[%s,%r,%r,zm=%s,step=%r]" % (type(o).__name__, _prim_name(o._child_spec), o.lower, o.upper,
                                               o.zero_median, o.step_mag)
    if isinstance(o, se.QuantizedFloatBase):
        return "%s[%s,zm=%s,step=%r]" % (type(o).__name__, _prim_name(o._child_spec), o.zero_median, o.step_mag)
    if isinstance(o, se.FixedPoint):
        return "FixedPoint[%s,signed=%s,frac=%d,min=%r,max=%r]" % (_prim_name(o._ser_spec), o._signed, o._frac_bits,
                                                                   o._min_val, o._max_val)
    if isinstance(o, se.QuantizedNumPyArray):
        return "QuantizedNumPyArray[%s,%r,%r]" % (o.dtype.name, o.lower, o.upper)
    return repr(o)


_CACHE = None


def discover():
    global _CACHE
    if _CACHE is None:
        roots = [("SUBFIELD_SERIALIZERS", se.SUBFIELD_SERIALIZERS), ("templates", templates), ("llanim", llanim),
                 ("mesh", mesh), ("objects", objects)]
        found = walk(roots, (se.QuantizedFloatBase, se.FixedPoint, se.QuantizedNumPyArray))
        d = {}
        for path, o in found:
            d.setdefault(inst_key(o), (o, []))[1].append(path)
        _CACHE = dict(sorted(d.items()))
    return _CACHE


def _bits(x):
    return struct.pack(">d", x)


def _fails(ctx, inst, law, bad, fmt):
    """bad: list of (raw, detail). Few -> one signature per raw; many -> one signature."""
    if not bad:
        return
    if len(bad) <= 4:
        for raw, detail in bad:
            ctx.fail("%s:%s:raw=%s" % (inst, law, raw), fmt % detail, {"instance": inst, "law": law, "raw": raw})
    else:
        ctx.fail("%s:%s:many" % (inst, law), ("%d raw values, first: " % len(bad)) + fmt % bad[0][1],
                 {"instance": inst, "law": law, "raw": bad[0][0]})


# ---- QuantizedFloat family ----------------------------------------------------------------------
def check_qfloat(ctx, key, q, lower=None, upper=None, fake_ctx=None, tag=None):
    prim = q._child_spec
    lo_raw, hi_raw = prim.min_val, prim.max_val
    lower = q.lower if lower is None else lower
    upper = q.upper if upper is None else upper
    inst = key if tag is None else "%s@%s" % (key, tag)
    raws = range(lo_raw, hi_raw + 1)
    dec = []
    bad_rt, bad_exc = [], []
    for r in raws:
        try:
            v = q.decode(r, fake_ctx)
            dec.append(v)
            r2 = q.encode(v, fake_ctx)
            if r2 != r or type(r2) is not int:
                bad_rt.append((r, (r, v, r2)))
        except Exception as e:
            dec.append(float("nan"))
            bad_exc.append((r, (r, repr(e))))
    _fails(ctx, inst, "roundtrip", bad_rt, "encode(decode(%r)=%r) = %r")
    _fails(ctx, inst, "raises", bad_exc, "raw %r raised %s")
    # the plain-data decoding mode (what pretty-printed subfields use) is a decoding too
    bad_pod = []
    already = {r for r, _ in bad_rt} | {r for r, _ in bad_exc}
    for r in raws:
        if r in already:
            continue        # same raw already reported through the default decoding mode (one root cause, one report)
        try:
            v = q.decode(r, fake_ctx, pod=True)
            r2 = q.encode(v, fake_ctx)
            if r2 != r:
                bad_pod.append((r, (r, v, r2)))
        except Exception as e:
            bad_pod.append((r, (r, None, repr(e))))
    _fails(ctx, inst, "roundtrip-pod", bad_pod, "encode(decode(%r, pod=True)=%r) = %r")
    ctx.last_bad_raws = {r for r, _ in bad_rt} | {r for r, _ in bad_exc}
    # monotonic
    bad_mono = []
    for i in range(1, len(dec)):
        a, b = dec[i - 1], dec[i]
        if not (b >= a):
            bad_mono.append((lo_raw + i, (lo_raw + i - 1, a, lo_raw + i, b)))
        elif b == a and not (q.zero_median and a == 0.0):
            bad_mono.append((lo_raw + i, (lo_raw + i - 1, a, lo_raw + i, b)))
    _fails(ctx, inst, "monotonic", bad_mono, "decode(%r)=%r !< decode(%r)=%r")
    # ends
    std_step = 1.0 / (hi_raw - lo_raw)
    if dec[0] != lower:
        ctx.fail("%s:end:lower-decode" % inst, "decode(%d) = %r, declared lower %r" % (lo_raw, dec[0], lower),
                 {"instance": inst, "law": "end", "raw": lo_raw})
    if q.step_mag == std_step:
        if dec[-1] != upper:
            ctx.fail("%s:end:upper-decode" % inst, "decode(%d) = %r, declared upper %r" % (hi_raw, dec[-1], upper),
                     {"instance": inst, "law": "end", "raw": hi_raw})
        try:
            eu = q.encode(upper, fake_ctx)
        except Exception as e:
            eu = repr(e)
        if eu != hi_raw:
            ctx.fail("%s:end:upper-encode" % inst, "encode(%r) = %r, expected %d" % (upper, eu, hi_raw),
                     {"instance": inst, "law": "end", "raw": hi_raw})
    try:
        el = q.encode(lower, fake_ctx)
    except Exception as e:
        el = repr(e)
    if el != lo_raw and not (bad_rt and bad_rt[0][0] == lo_raw and dec[0] == lower):
        ctx.fail("%s:end:lower-encode:raw=%d" % (inst, lo_raw), "encode(lower=%r) = %r, expected %d" % (lower, el, lo_raw),
                 {"instance": inst, "law": "end", "raw": lo_raw})
    # zero for centred ranges
    if lower == -upper and upper != 0:
        zeros = [lo_raw + i for i, v in enumerate(dec) if v == 0.0]
        if not zeros:
            ctx.fail("%s:zero:unrepresentable" % inst, "range centred on zero but no raw value decodes to 0.0",
                     {"instance": inst, "law": "zero", "raw": 0})
        else:
            got = set()
            for z in (0.0, -0.0):
                try:
                    got.add(q.encode(z, fake_ctx))
                except Exception as e:
                    got.add(repr(e))
            if not got <= set(zeros) or (len(zeros) == 2 and got != set(zeros)):
                ctx.fail("%s:zero:encode" % inst, "raws decoding to zero %r, encode(+0.0/-0.0) gave %r" % (zeros, sorted(got, key=repr)),
                         {"instance": inst, "law": "zero", "raw": zeros[0]})
    return len(dec)


def check_wire(ctx, key, spec, n_raw_bytes, lo_raw, hi_raw, signed, skip=()):
    """through BufferReader/BufferWriter, both byte orders: bytes -> value -> bytes"""
    fmt = {1: "b" if signed else "B", 2: "h" if signed else "H"}[n_raw_bytes]
    n = 0
    for endian in ("<", ">"):
        bad = []
        for r in range(lo_raw, hi_raw + 1):
            if r in skip:
                continue    # already reported at adapter level (same root cause)
            raw = struct.pack(endian + fmt, r)
            try:
                reader = se.BufferReader(endian, raw)
                v = reader.read(spec)
                w = se.BufferWriter(endian)
                w.write(spec, v)
                out = bytes(w.copy_buffer())
                if out != raw or len(reader):
                    bad.append((r, (raw.hex(), v, out.hex())))
            except Exception as e:
                bad.append((r, (raw.hex(), None, repr(e))))
            n += 1
        _fails(ctx, key, "wire%s" % ("LE" if endian == "<" else "BE"), bad, "bytes %s -> %r -> %s")
    return n


_COORD_CACHE = None


def discover_coords():
    """multi-component field representations: quantised / fixed-point tuple coords and packed quaternions over them"""
    global _COORD_CACHE
    if _COORD_CACHE is None:
        roots = [("SUBFIELD_SERIALIZERS", se.SUBFIELD_SERIALIZERS), ("templates", templates), ("llanim", llanim),
                 ("mesh", mesh), ("objects", objects)]
        d = {}
        for path, o in walk(roots, (se.EncodedTupleCoord, se.PackedQuat)):
            if isinstance(o, se.PackedQuat):
                child = o._child_spec
                if not isinstance(child, se.EncodedTupleCoord):
                    continue
                key = "PackedQuat(%s)" % coord_key(child)
            else:
                key = coord_key(o)
            d.setdefault(key, (o, []))[1].append(path)
        _COORD_CACHE = dict(sorted(d.items()))
    return _COORD_CACHE


def coord_key(o):
    parts = []
    for e in o._elem_specs:
        parts.append(inst_key(e) if isinstance(e, (se.QuantizedFloatBase, se.FixedPoint)) else repr(e))
    return "%s[%s x%d; %s]" % (type(o).__name__, _prim_name(o.ELEM_SPEC), o.NUM_ELEMS, " | ".join(sorted(set(parts))))


def check_coord(ctx, key, spec):
    """bytes -> value -> bytes for whole coordinate fields: each component swept over its full raw range with the others
    pinned, plus a grid of boundary values in all components (the combinations a per-component sweep never reaches)"""
    coord = spec._child_spec if isinstance(spec, se.PackedQuat) else spec
    prim = coord.ELEM_SPEC
    n_el = coord.NUM_ELEMS
    size = prim.calc_size()
    fmt = {1: "b" if prim.is_signed else "B", 2: "h" if prim.is_signed else "H"}[size]
    lo, hi = prim.min_val, prim.max_val
    mid = (lo + hi) // 2
    edge = sorted({lo, lo + 1, mid - 1, mid, mid + 1, mid + 2, hi - 1, hi, lo + (hi - lo) // 4, lo + 3 * (hi - lo) // 4})
    import itertools
    cases = []
    for i in range(n_el):
        for pin in (lo, mid, hi):
            for r in range(lo, hi + 1, 1 if size == 1 else 3):
                c = [pin] * n_el
                c[i] = r
                cases.append(tuple(c))
    cases.extend(itertools.product(edge, repeat=n_el) if n_el <= 3 else itertools.product(edge[::2], repeat=n_el))
    n = 0
    for endian in ("<", ">"):
        bad = []
        for k, c in enumerate(cases):
            if endian == ">" and k % 5:
                continue
            raw = struct.pack(endian + fmt * n_el, *c)
            try:
                reader = se.BufferReader(endian, raw)
                v = reader.read(spec)
                w = se.BufferWriter(endian)
                w.write(spec, v)
                out = bytes(w.copy_buffer())
                if out != raw or len(reader):
                    bad.append((c, (raw.hex(), v, out.hex())))
            except Exception as e:
                bad.append((c, (raw.hex(), None, repr(e))))
            n += 1
        if bad:
            first = bad[0]
            ctx.fail("%s:coord-wire%s" % (key, "LE" if endian == "<" else "BE"),
                     "%d raw component tuples do not survive, first: bytes %s -> %r -> %s" % ((len(bad),) + first[1]),
                     {"coord": key, "raw": list(first[0]), "endian": endian})
    return n


def check_fixed(ctx, key, fp):
    prim = fp._ser_spec
    size = prim.calc_size()
    nbits = size * 8
    frac = fp._frac_bits
    signed = fp._signed
    offset = (1 << (nbits - frac - 1)) if signed else 0
    bad_val, bad_rt = [], []
    prev = None
    bad_mono = []
    fmt = {1: "B", 2: "H"}[size]
    for r in range(0, 1 << nbits):
        raw = struct.pack("<" + fmt, r)
        v = se.BufferReader("<", raw).read(fp)
        exp = r / (1 << frac) - offset
        if v != exp:
            bad_val.append((r, (r, v, exp)))
        w = se.BufferWriter("<")
        try:
            w.write(fp, v)
            out = bytes(w.copy_buffer())
        except Exception as e:
            out = repr(e)
        if out != raw:
            bad_rt.append((r, (r, v, out if isinstance(out, str) else out.hex())))
        if prev is not None and not v > prev:
            bad_mono.append((r, (r - 1, prev, r, v)))
        prev = v
    _fails(ctx, key, "value", bad_val, "decode(%r) = %r, bit layout says %r")
    _fails(ctx, key, "roundtrip", bad_rt, "encode(decode(%r)=%r) = %s")
    _fails(ctx, key, "monotonic", bad_mono, "decode(%r)=%r !< decode(%r)=%r")
    if signed:
        zraw = offset << frac
        w = se.BufferWriter("<")
        w.write(fp, 0.0)
        if bytes(w.copy_buffer()) != struct.pack("<" + fmt, zraw):
            ctx.fail("%s:zero:encode" % key, "encode(0.0) != raw %d" % zraw, {"instance": key, "law": "zero", "raw": zraw})
    n = check_wire(ctx, key, fp, size, 0, (1 << nbits) - 1, False)
    return (1 << nbits) + n


def check_qnp(ctx, key, q):
    n = 1 << (q.dtype.itemsize * 8)
    raws = np.arange(n, dtype=q.dtype)
    dec = q.decode(raws, None)
    enc = q.encode(dec, None)
    bad = [(int(r), (int(r), float(dec[r]), int(enc[r]))) for r in np.nonzero(enc != raws)[0][:50]]
    _fails(ctx, key, "roundtrip", bad, "encode(decode(%r)=%r) = %r")
    if enc.dtype != q.dtype:
        ctx.fail("%s:dtype" % key, "encode returned dtype %s" % enc.dtype, {"instance": key, "law": "dtype", "raw": 0})
    d = np.diff(dec)
    badm = [(int(i) + 1, (int(i), float(dec[i]), int(i) + 1, float(dec[i + 1]))) for i in np.nonzero(~(d > 0))[0][:50]]
    _fails(ctx, key, "monotonic", badm, "decode(%r)=%r !< decode(%r)=%r")
    if float(dec[0]) != q.lower or float(dec[-1]) != q.upper:
        ctx.fail("%s:end:decode" % key, "ends decode to %r..%r, declared %r..%r" % (float(dec[0]), float(dec[-1]), q.lower, q.upper),
                 {"instance": key, "law": "end", "raw": 0})
    ends = q.encode(np.array([q.lower, q.upper]), None)
    if int(ends[0]) != 0 or int(ends[1]) != n - 1:
        ctx.fail("%s:end:encode" % key, "ends encode to %r" % (ends.tolist(),), {"instance": key, "law": "end", "raw": 0})
    # differential against the scalar implementation (no zero-median rounding, as the numpy variant documents)
    prim = {1: se.U8, 2: se.U16}[q.dtype.itemsize]
    scalar = se.QuantizedFloat(prim, q.lower, q.upper, False)
    sd = np.array([scalar.decode(int(r), None) for r in raws])
    diff = np.nonzero(sd != dec)[0]
    badd = [(int(r), (int(r), float(dec[r]), float(sd[r]))) for r in diff[:50]]
    _fails(ctx, key, "differs-from-scalar", badd, "numpy decode(%r)=%r, scalar %r")
    # 2-d shaped input, as the mesh codec passes it
    arr2 = raws.reshape((-1, 2))
    if not np.array_equal(q.encode(q.decode(arr2, None), None), arr2):
        ctx.fail("%s:roundtrip-2d" % key, "2-d array does not round-trip", {"instance": key, "law": "roundtrip-2d", "raw": 0})
    return 3 * n


def check_vertex_weights(ctx):
    key = "mesh.VertexWeights[U16 weight]"
    bad, badm = [], []
    prev = None
    for r in range(0x10000):
        raw = bytes([3]) + struct.pack("<H", r) + b"\xff"
        v = se.BufferReader("<", raw).read(mesh.VertexWeights)
        w = se.BufferWriter("<")
        w.write(mesh.VertexWeights, v)
        out = bytes(w.copy_buffer())
        if out != raw:
            bad.append((r, (r, v, out.hex())))
        wt = v[0].weight
        if prev is not None and not wt > prev:
            badm.append((r, (r - 1, prev, r, wt)))
        prev = wt
        if r == 0 and wt != 0.0 or r == 0xFFFF and wt != 1.0:
            ctx.fail("%s:end" % key, "raw %d decodes to %r" % (r, wt), {"instance": key, "law": "end", "raw": r})
    _fails(ctx, key, "roundtrip", bad, "encode(decode(%r)=%r) = %s")
    _fails(ctx, key, "monotonic", badm, "decode(%r)=%r !< decode(%r)=%r")
    return 0x10000


@st.composite
def vertex_influences(draw):
    """the wire form of one vertex: 0..4 (joint, U16 weight) pairs, terminated by 0xFF when fewer than four"""
    n = draw(st.integers(0, 4))
    w16 = st.one_of(st.integers(0, 0xFFFF), st.integers(0x4000, 0xFFFF), st.sampled_from([0, 1, 0x7FFF, 0x8000, 0xFFFE, 0xFFFF]))
    return {"influences": [[draw(st.integers(0, 0xFE)), draw(w16)] for _ in range(n)]}


def vertex_influence_laws(case):
    inf = case["influences"]
    raw = b"".join(bytes([j]) + struct.pack("<H", w) for j, w in inf) + (b"\xff" if len(inf) < 4 else b"")
    out = []
    try:
        r = se.BufferReader("<", raw + b"\x7e")
        v = r.read(mesh.VertexWeights)
        if len(r) != 1:
            out.append(("mesh.VertexWeights:multi:framing", "vertex %s: %d bytes left instead of 1" % (raw.hex(), len(r))))
        got = [(x.joint_idx, x.weight) for x in v]
        want = [(j, w / 0xFFFF) for j, w in inf]
        if got != want:
            out.append(("mesh.VertexWeights:multi:value", "vertex %s decodes to %r, the wire says %r" % (raw.hex(), got, want)))
        w = se.BufferWriter("<")
        w.write(mesh.VertexWeights, v)
        back = bytes(w.copy_buffer())
        if back != raw:
            out.append(("mesh.VertexWeights:multi:roundtrip", "vertex %s (raw weights %r, sum %d) is written back as %s" % (
                raw.hex(), [x[1] for x in inf], sum(x[1] for x in inf), back.hex())))
    except Exception as e:
        out.append(("mesh.VertexWeights:multi:raises:%s" % type(e).__name__, "vertex %s raised %r" % (raw.hex(), e)))
    return out


FIXED_DURATIONS = [1e-3, 0.5, 1.0, 3.3, 8.25, 10.0, 16.5, 30.0, 33.0, 37.0, 41.0, 45.0, 60.0, 3600.0,
                   float(np.float32(0.1)), float(np.float32(1 / 3)), float(np.float32(12.345)),
                   float(np.float32(3.4e38)), float(np.float32(1.4e-45)), float(np.float32(1.17549435e-38))]


def _time_ctx(duration):
    return types.SimpleNamespace(_root=types.SimpleNamespace(duration=duration))


def check_time(ctx, key, q, duration):
    fc = _time_ctx(duration)
    if duration == 0.0:
        try:
            bad = [(r, (r, q.decode(r, fc))) for r in (0, 1, 0x7FFF, 0xFFFF) if q.decode(r, fc) != 0.0]
            _fails(ctx, key + "@0", "degenerate", bad, "decode(%r) = %r for duration 0")
            if q.encode(0.0, fc) != 0:
                ctx.fail("%s@0:degenerate-encode" % key, "encode(0.0) with duration 0", {"instance": key, "duration": 0.0})
        except Exception as e:
            ctx.fail("%s@0:degenerate-raises:%s" % (key, type(e).__name__), "a zero-length range (duration 0) raised %r" % (e,),
                     {"instance": key, "duration": 0.0})
        ctx.count("time_durations")
        return 5
    n = check_qfloat(ctx, key, q, lower=0.0, upper=duration, fake_ctx=fc, tag="duration=%r" % duration)
    ctx.count("time_durations")
    return n


_DOM_RAWS = np.arange(0x10000, dtype="<u2")
_DOM_DATA = {"Position": (np.stack([_DOM_RAWS, _DOM_RAWS[::-1], _DOM_RAWS], axis=1).astype("<u2").tobytes(), 3),
             "TexCoord0": (np.stack([_DOM_RAWS, _DOM_RAWS[::-1]], axis=1).astype("<u2").tobytes(), 2)}


def mesh_domain_laws(field, lo, hi):
    """mesh vertex data is quantised relative to a per-LOD domain: all 65,536 raw values of every component through the real segment
    codec and positions_from_domain / positions_to_domain"""
    data, n = _DOM_DATA[field]
    vec = Vector3 if n == 3 else Vector2
    dom = {"Min": vec(*lo[:n]), "Max": vec(*hi[:n])}
    vals = mesh.positions_from_domain(mesh.LOD_SEGMENT_SERIALIZER.deserialize({field: data})[field], dom)
    out = []
    first, last = tuple(vals[0]), tuple(vals[-1])
    want_first = tuple(hi[i] if i == 1 else lo[i] for i in range(n))      # component 1 runs downwards
    want_last = tuple(lo[i] if i == 1 else hi[i] for i in range(n))
    if first != want_first or last != want_last:
        out.append(("mesh.%s-domain:end" % field, "domain %r..%r: raw 0 / 65535 decode to %r / %r" % (lo[:n], hi[:n], first, last)))
    for i in range(n):
        col = np.array([v[i] for v in vals])
        d = np.diff(col)
        if (d < 0).any() if i != 1 else (d > 0).any():
            j = int(np.nonzero(d < 0 if i != 1 else d > 0)[0][0])
            out.append(("mesh.%s-domain:monotonic" % field, "domain %r..%r component %d: not monotonic at row %d" % (lo[:n], hi[:n], i, j)))
            break
    back = mesh.LOD_SEGMENT_SERIALIZER.serialize({field: mesh.positions_to_domain(vals, dom)})[field]
    if bytes(back) != data:
        a = np.frombuffer(bytes(back), dtype="<u2")
        b = np.frombuffer(data, dtype="<u2")
        j = int(np.nonzero(a != b)[0][0]) if len(a) == len(b) else -1
        out.append(("mesh.%s-domain:roundtrip" % field, "domain %r..%r: raw value at index %d does not survive decode + re-encode" % (lo[:n], hi[:n], j)))
    return out


_DOM_EDGE = [-0.5, 0.5, -0.1, 0.7, 0.1, 0.3, -1.0, 1.0, 0.0, 1e-3, -64.0, 64.0, 1 / 3, 2 / 3, -0.7, 0.9]
_DOM_FLOAT = st.one_of(st.floats(-1000.0, 1000.0, width=32), st.floats(-1000.0, 1000.0), st.sampled_from(_DOM_EDGE), st.floats(-1.0, 1.0))


@st.composite
def mesh_domain_case(draw):
    lo, hi = [], []
    for _ in range(3):
        a, b = draw(_DOM_FLOAT), draw(_DOM_FLOAT)
        if abs(a - b) < 1e-3:
            b = a + draw(st.sampled_from([1e-3, 0.01, 0.1, 1.0, 3.3]))
        lo.append(min(a, b) + 0.0)
        hi.append(max(a, b) + 0.0)
    return {"mesh_domain": draw(st.sampled_from(["Position", "TexCoord0"])), "lo": lo, "hi": hi}


def shards(tier):
    th = tier == "thorough"
    sh = [{"kind": "inst", "key": k} for k in discover()]
    for i in range(4):
        sh.append({"kind": "mesh_domain", "n": 150 if th else 8})
    sh.append({"kind": "vertex_weights"})
    sh.append({"kind": "vertex_multi", "n": 60000 if th else 6000})
    for k in discover_coords():
        sh.append({"kind": "coord", "key": k})
    sh.append({"kind": "time_fixed", "lo": 0, "hi": 10})
    sh.append({"kind": "time_fixed", "lo": 10, "hi": 20})
    for i in range(12 if th else 4):
        sh.append({"kind": "time_gen", "n": 60 if th else 8})
    sh.append({"kind": "anim_wire", "n": 60 if th else 10})
    return sh


def _time_inst():
    for k, (o, paths) in discover().items():
        if isinstance(o, llanim.QuantizedTime):
            return k, o
    raise RuntimeError("QuantizedTime instance not discovered")


def _anim_wire(ctx, n):
    """key-frame times through the real animation codec: first/last raw values for several durations"""
    for i in range(n):
        dur = FIXED_DURATIONS[i % len(FIXED_DURATIONS)] if i < len(FIXED_DURATIONS) else 0.25 * (i + 1)
        dur = float(np.float32(min(dur, 3.0e38)))
        for raw in (0, 1, 0x7FFF, 0x8000, 0xFFFE, 0xFFFF):
            fc = _time_ctx(dur)
            k, q = _time_inst()
            t = q.decode(raw, fc)
            anim = llanim.Animation(major_version=1, minor_version=0, base_priority=1, duration=dur, emote_name="",
                                    loop_in_point=0.0, loop_out_point=0.0, loop=0, ease_in_duration=0.0,
                                    ease_out_duration=0.0, hand_pose=llanim.HandPose.RELAXED,
                                    joints={"mPelvis": llanim.Joint(priority=1, rot_keyframes=[],
                                                                   pos_keyframes=[llanim.PosKeyframe(time=t, pos=templates.Vector3(0, 0, 0))])})
            ctx.bulk(1, 1)
            try:
                b = anim.to_bytes()
                a2 = llanim.Animation.from_bytes(b)
                t2 = a2.joints["mPelvis"].pos_keyframes[0].time
                b2 = a2.to_bytes()
            except Exception as e:
                ctx.fail("anim-wire:raises:%s" % type(e).__name__, "duration %r raw %d: %r" % (dur, raw, e), {"duration": dur, "raw": raw})
                continue
            if b2 != b or _bits(t2) != _bits(t) and not (t2 == t == 0.0):
                ctx.fail("anim-wire:keyframe-time", "duration %r raw %d: time %r -> %r, bytes equal %s" % (dur, raw, t, t2, b2 == b),
                         {"duration": dur, "raw": raw})
            if raw == 0xFFFF and t2 != dur:
                ctx.fail("anim-wire:last-keyframe-not-duration", "duration %r: raw 0xFFFF decodes to %r" % (dur, t2), {"duration": dur, "raw": raw})


def run_shard(ctx, shard):
    k = shard["kind"]
    if k == "inst":
        o, paths = discover()[shard["key"]]
        ctx.count("instances")
        key = shard["key"]
        sample = {"instance": key, "reached_via": paths[0][:160], "occurrences": len(paths)}
        if isinstance(o, llanim.QuantizedTime):
            n = check_time(ctx, key, o, 0.0)
        elif isinstance(o, se.QuantizedFloatBase):
            n = check_qfloat(ctx, key, o)
            p = o._child_spec
            n += check_wire(ctx, key, o, p.calc_size(), p.min_val, p.max_val, p.is_signed, skip=getattr(ctx, 'last_bad_raws', ()))
        elif isinstance(o, se.FixedPoint):
            n = check_fixed(ctx, key, o)
        else:
            n = check_qnp(ctx, key, o)
        ctx.bulk(n, max(n - 3, 0), None, sample)
    elif k == "coord":
        o, paths = discover_coords()[shard["key"]]
        ctx.count("coord_instances")
        n = check_coord(ctx, shard["key"], o)
        ctx.bulk(n, n - 1, None, {"coord": shard["key"], "reached_via": paths[0][:160], "occurrences": len(paths)})
    elif k == "vertex_weights":
        n = check_vertex_weights(ctx)
        ctx.count("instances")
        ctx.bulk(n, n - 1, None, {"instance": "mesh.VertexWeights"})
    elif k == "vertex_multi":
        def vbody(case):
            inf = case["influences"]
            over = sum(x[1] for x in inf) > 0xFFFF
            ctx.case(("vertex", tuple(map(tuple, inf))), nontrivial=len(inf) >= 2,
                     classes=["vertex_influences:%d" % len(inf)] + (["vertex_raw_sum>0xFFFF"] if over else []))
            return vertex_influence_laws(case)
        hyp_run(ctx, vertex_influences(), vbody, shard["n"], label="vertex-influences")
    elif k == "time_fixed":
        key, q = _time_inst()
        for d in FIXED_DURATIONS[shard["lo"]:shard["hi"]]:
            n = check_time(ctx, key, q, d)
            ctx.bulk(n, n - 1, None, {"instance": key, "duration": d})
    elif k == "time_gen":
        key, q = _time_inst()
        f32 = st.floats(min_value=0.0, max_value=float(np.float32(3.0e38)), width=32, allow_nan=False, allow_infinity=False,
                        exclude_min=True) | st.floats(min_value=float(np.float32(0.01)), max_value=600.0, width=32)

        def body(d):
            before = dict(ctx.violations)
            n = check_time(ctx, key, q, float(d))
            ctx.bulk(n, n - 1, None, {"instance": key, "duration": float(d)})
            return []
        hyp_run(ctx, f32, body, shard["n"])
    elif k == "anim_wire":
        _anim_wire(ctx, shard["n"])
    elif k == "mesh_domain":
        def body(case):
            ctx.bulk(3 * 0x10000, 3 * 0x10000 - 1, {"mesh_domains": 1}, case)
            return mesh_domain_laws(case["mesh_domain"], case["lo"], case["hi"])
        hyp_run(ctx, mesh_domain_case(), body, shard["n"], label="mesh-domain")


def replay(ctx, case):
    if isinstance(case, dict) and "influences" in case:
        return vertex_influence_laws(case)
    if isinstance(case, dict) and "mesh_domain" in case:
        return mesh_domain_laws(case["mesh_domain"], case["lo"], case["hi"])
    if isinstance(case, dict) and "coord" in case:
        o, _ = discover_coords()[case["coord"]]
        check_coord(ctx, case["coord"], o)
        return []
    out_ctx = ctx
    inst = case.get("instance") if isinstance(case, dict) else None
    if inst is None and isinstance(case, dict) and "duration" in case:
        _anim_wire(ctx, 30)
    else:
        base = inst.split("@")[0]
        d = discover()
        if base in d:
            o = d[base][0]
            if isinstance(o, llanim.QuantizedTime):
                dur = float(inst.split("duration=")[1]) if "duration=" in inst else 0.0
                check_time(ctx, base, o, dur)
            elif isinstance(o, se.QuantizedFloatBase):
                check_qfloat(ctx, base, o)
                p = o._child_spec
                check_wire(ctx, base, o, p.calc_size(), p.min_val, p.max_val, p.is_signed, skip=getattr(ctx, 'last_bad_raws', ()))
            elif isinstance(o, se.FixedPoint):
                check_fixed(ctx, base, o)
            else:
                check_qnp(ctx, base, o)
        elif base.startswith("mesh.VertexWeights"):
            check_vertex_weights(ctx)
    return [(v["sig"], v["msg"]) for v in out_ctx.violations.values()] + [(s, "known") for s in out_ctx.known_hits]
