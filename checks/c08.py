"""C08 - serialization combinators: read(write(v)) == v, exact framing, composable."""
from hypothesis import strategies as st

import hippolyzer.lib.base.serialization as se

from vlib import gen_specs as gs
from vlib.runner import hyp_run

PROPERTY = "C08"
LEVEL = "exploration"
RULE = ("spec trees (depth <= 4) generated from the combinator grammar - primitives, byte/str variants, UUID, tuples, templates "
        "(optional members, skip_missing), collections (prefixed / fixed / greedy), OptionalPrefixed, OptionalFlagged, IfPresent, "
        "LengthSwitch, IntEnum / IntFlag, EnumSwitch, FlagSwitch, ContextSwitch, BitField / BitfieldDataclass (shift and "
        "non-shift), TypedByteArray / Fixed / Greedy (lazy, empty_is_none), generated dataclasses, Dict / Bool / Expr / "
        "StringEnum adapters, quantised floats / vectors / fixed point - with window-consuming nodes only last in their byte "
        "window or inside a length-delimited wrapper; values drawn from the domain derived from the spec; x {little, big} "
        "endian x {object, pod} x trailing bytes; plus out-of-range values; plus packed quaternions over every 3- and 4-component "
        "child (F32, U16, U8) from generated wire components biased to the zero encodings (3-component W is derived, 4-component W "
        "is carried, including W == 0).  Non-trivial = tree depth >= 2; distinct by "
        "(spec description, value).")
ASSUMPTIONS = [
    "value domains are derived from the combinators' documented behaviour: text has no trailing NUL and fits its field, terminated "
    "bytes contain no terminator, IntFlag is used over unsigned wire types, strict enums only get members, empty_is_none is only "
    "combined with inner specs that never encode to nothing",
    "read results are compared after normalisation (lazy proxies unwrapped, dataclasses as dicts, floats by bits)",
]
FLOORS = {"quick": dict({"kind:" + k: 25 for k in gs.ALL_KINDS}, **{"depth>=2": 1500, "self_delimiting": 1000, "window_consuming": 500, "ood": 50, "quat:4-component:w-zero": 150,
                                                                     "quat:V4F32": 300, "quat:V4U16": 300, "quat:V4U8": 300, "quat:V3F32": 300, "quat:V3U16": 300, "quat:V3U8": 300}),
          "thorough": {"kind:" + k: 500 for k in gs.ALL_KINDS}}
MANIFEST = {
    "text": "Program-level generation: random compositions of the framework's combinators with values from the derived domain; "
            "each is written and read back in both byte orders and both modes and checked for value equality, exact consumption, "
            "size-query agreement, composition with trailing bytes, identical bytes from object and pod forms, and rejection of "
            "out-of-range values; failures are localised to the smallest failing sub-spec; packed quaternions are checked against "
            "their child coordinate read alone (derived W for three components, carried W for four).",
    "note": "Sampling over an infinite space of spec trees; per-combinator floors in the evidence show each class was exercised.",
    "technique": "Hypothesis grammar-based spec generation with derived value domains; round-trip / framing / size / composition oracles",
}


def write(spec, val, endian):
    w = se.BufferWriter(endian)
    w.write(spec, val)
    return w.copy_buffer()


def check_one(desc, value, trailing=b"\x7fTRAIL", modes=(("<", False), (">", False), ("<", True), (">", True))):
    """all laws for one (spec, value); returns list of (law, message)"""
    out = []
    try:
        spec = gs.build(desc)
    except Exception as e:
        return [("build:%s" % type(e).__name__, "building the spec raised %r" % (e,))]
    try:
        size = spec.calc_size()
    except Exception as e:
        out.append(("calc_size-raises:%s" % type(e).__name__, "calc_size() raised %r" % (e,)))
        size = None
    encs = {}
    for endian, pod in modes:
        tag = ("LE" if endian == "<" else "BE") + ("/pod" if pod else "/obj")
        try:
            data = write(spec, gs.rich(desc, value, pod=pod), endian)
        except Exception as e:
            out.append(("write-raises:%s" % type(e).__name__, "%s write raised %r" % (tag, e)))
            continue
        encs[(endian, pod)] = data
        if size is not None and len(data) != size:
            out.append(("size-mismatch", "%s calc_size()=%r but encoding has %d bytes" % (tag, size, len(data))))
        try:
            reader = se.BufferReader(endian, data, pod=pod)
            got = gs.norm(reader.read(spec))
            left = len(reader)
        except Exception as e:
            out.append(("read-raises:%s" % type(e).__name__, "%s read raised %r" % (tag, e)))
            continue
        want = gs.expected(desc, value, pod)
        if got != want:
            out.append(("value-mismatch:%s" % ("pod" if pod else "obj"), "%s read %r, expected %r" % (tag, _short(got), _short(want))))
        if left:
            out.append(("not-fully-consumed", "%s left %d of %d bytes unread" % (tag, left, len(data))))
        if gs.self_delimiting(desc):
            try:
                reader = se.BufferReader(endian, data + trailing, pod=pod)
                got2 = gs.norm(reader.read(spec))
                rest = bytes(reader.read_bytes(len(reader)))
                if got2 != want or rest != trailing:
                    out.append(("composition", "%s followed by trailing bytes: value ok=%s, %d bytes left (expected %d)" % (
                        tag, got2 == want, len(rest), len(trailing))))
            except Exception as e:
                out.append(("composition-raises:%s" % type(e).__name__, "%s with trailing bytes raised %r" % (tag, e)))
    for endian in "<>":
        a, b = encs.get((endian, False)), encs.get((endian, True))
        if a is not None and b is not None and a != b:
            out.append(("pod-encoding-differs", "object and pod forms encode differently (%s)" % endian))
    seen, uniq = set(), []
    for s, m in out:
        if s not in seen:
            seen.add(s)
            uniq.append((s, m))
    return uniq


def _short(x):
    r = repr(x)
    return r if len(r) < 160 else r[:160] + "..."


def child_cases(d, v):
    """(child description, child value) pairs that can be checked on their own"""
    k = d["k"]
    kids = d.get("c", [])
    if v is None:
        return []
    if k in ("tuple", "tuple_fixed", "template", "dataclass"):
        return list(zip(kids, v))
    if k in ("collection_prefixed", "collection_fixed", "collection_greedy"):
        return [(kids[0], x) for x in v]
    if k in ("optional_prefixed", "if_present", "typed_byte_array", "typed_bytes_fixed", "typed_bytes_greedy"):
        return [(kids[0], v[0])]
    if k in ("length_switch", "enum_switch"):
        return [(kids[v[0]], v[1])]
    if k == "flag_switch":
        return [(c, x[0]) for c, x in zip(kids, v) if x is not None]
    if k == "dict_adapter":
        return [(kids[0], b) for a, b in v]
    if k == "ctx_template":
        return [(kids[v[0]], v[1]), (kids[2], v[2])]
    if k == "flagged_template":
        return [(kids[0], v[1]), (kids[1], v[2])]
    return []


def localize(d, v, law):
    """kind of the smallest sub-spec that still violates `law` on its own"""
    for cd, cv in child_cases(d, v):
        try:
            res = check_one(cd, cv)
        except Exception:
            continue
        if any(s == law for s, _ in res):
            return localize(cd, cv, law)
    return d["k"]


def laws(case):
    desc, value = case["spec"], case["value"]
    res = check_one(desc, value, trailing=case.get("trailing", b"\x7fTRAIL"))
    out = []
    for law, msg in res:
        where = localize(desc, value, law)
        out.append(("%s@%s" % (law, where), "%s [in %s; spec %s]" % (msg, where, _short(gs.strip(desc)))))
    return out


@st.composite
def cases(draw, depth):
    desc = draw(gs.spec_desc(depth=depth, last=True))
    gs.build(desc)      # creates the generated dataclasses the value strategies need
    value = draw(gs.values(desc))
    trailing = draw(st.one_of(st.just(b"\x7fTRAIL"), st.binary(min_size=1, max_size=8)))
    return {"spec": desc, "value": value, "trailing": trailing}


# ---- out-of-domain values: must be rejected, never written truncated --------------------------------
def ood_cases():
    yield "byte_array:U8:256", {"k": "byte_array", "len": "U8"}, bytes(256)
    yield "byte_array:U8:300", {"k": "byte_array", "len": "U8"}, b"x" * 300
    yield "byte_array:U16:65536", {"k": "byte_array", "len": "U16"}, bytes(65536)
    yield "bytes_fixed:short", {"k": "bytes_fixed", "n": 4}, b"abc"
    yield "bytes_fixed:long", {"k": "bytes_fixed", "n": 4}, b"abcde"
    yield "str_fixed:long", {"k": "str_fixed", "n": 4}, "abcde"
    yield "str_fixed:multibyte", {"k": "str_fixed", "n": 4}, "ééé"
    yield "str:U8:long", {"k": "str", "len": "U8", "null_term": True}, "x" * 255
    yield "str:U8:long-nonull", {"k": "str", "len": "U8", "null_term": False}, "x" * 256
    yield "collection:U8:256", {"k": "collection_prefixed", "len": "U8", "c": [{"k": "prim", "p": "U8"}]}, [1] * 256
    yield "collection_fixed:short", {"k": "collection_fixed", "n": 3, "c": [{"k": "prim", "p": "U8"}]}, [1, 2]
    yield "collection_fixed:long", {"k": "collection_fixed", "n": 3, "c": [{"k": "prim", "p": "U8"}]}, [1, 2, 3, 4]
    for shift in (True, False):
        for bits in ([3, 5], [4, 4, 8], [1, 7]):
            p = "U8" if sum(bits) == 8 else "U16"
            for idx in range(len(bits)):
                for delta in (0, 1, 5):
                    v = [0] * len(bits)
                    v[idx] = (1 << bits[idx]) + delta
                    yield "bitfield:%s:%s:%d:+%d" % ("shift" if shift else "noshift", bits, idx, delta), \
                        {"k": "bitfield", "p": p, "bits": bits, "shift": shift}, ("RAW", v)
    # un-shifted bit-fields take member values already in position: a value with bits below its member's position is out of domain
    for bits in ([3, 5], [4, 4, 8], [1, 7]):
        p = "U8" if sum(bits) == 8 else "U16"
        cur = 0
        for idx in range(len(bits)):
            if idx >= 1:
                for low in (1, (1 << cur) - 1):
                    v = [0] * len(bits)
                    v[idx] = (1 << cur) | low
                    yield "bitfield:noshift:%s:%d:stray-low-bits:%d" % (bits, idx, low), \
                        {"k": "bitfield", "p": p, "bits": bits, "shift": False}, ("POSITIONED", v)
            cur += bits[idx]
    # coordinate values with more components than the field has (fewer are filled up with the coordinate class's defaults by design)
    from hippolyzer.lib.base.datatypes import Vector2, Vector3, Vector4
    yield "vec3:given-Vector4", {"k": "vec3"}, ("OBJ", Vector4(1.0, 2.0, 3.0, 4.0))
    yield "vec3:given-4-tuple", {"k": "vec3"}, ("OBJ", (1.0, 2.0, 3.0, 4.0))
    yield "prim:U8:256", {"k": "prim", "p": "U8"}, 256
    yield "prim:S8:-129", {"k": "prim", "p": "S8"}, -129
    yield "typed_byte_array:U8:inner-too-long", {"k": "typed_byte_array", "len": "U8", "lazy": False, "empty_is_none": False,
                                                   "c": [{"k": "bytes_greedy"}]}, [bytes(256)]


def check_ood(name, desc, value):
    spec = gs.build(desc)
    out = []
    for endian in "<>":
        if isinstance(value, tuple) and value and value[0] == "RAW":
            # bit-field member values given un-shifted: member idx holds a value one past its width
            vals = {}
            cur = 0
            for i, (b, x) in enumerate(zip(desc["bits"], value[1])):
                vals["f%d" % i] = x if desc["shift"] else (x << cur)
                cur += b
            richv = vals
        elif isinstance(value, tuple) and value and value[0] == "POSITIONED":
            richv = {"f%d" % i: x for i, x in enumerate(value[1])}
        elif isinstance(value, tuple) and value and value[0] == "OBJ":
            richv = value[1]
        else:
            richv = gs.rich(desc, value) if not isinstance(value, (bytes, str)) or desc["k"] in ("byte_array", "bytes_fixed", "str", "str_fixed") else value
        try:
            data = write(spec, richv, endian)
        except Exception:
            continue          # rejected: fine
        try:
            got = se.BufferReader(endian, data).read(spec)
        except Exception as e:
            out.append(("ood-written-unreadable:%s" % desc["k"], "%s: out-of-range value was written (%d bytes) and cannot be read back: %r" % (name, len(data), e)))
            continue
        if gs.norm(got) != gs.norm(richv):
            out.append(("ood-written-truncated:%s" % desc["k"], "%s: out-of-range value %s was written and reads back as %s" % (
                name, _short(richv), _short(got))))
    return out


# ---- packed quaternions: 3-component children derive W, 4-component children carry it ---------------------
_QUAT_CHILDREN = {
    "V4F32": (lambda: se.Vector4, 4, None), "V4U16": (lambda: se.Vector4U16(-1.0, 1.0), 4, 0xFFFF), "V4U8": (lambda: se.Vector4U8(-1.0, 1.0), 4, 0xFF),
    "V3F32": (lambda: se.Vector3, 3, None), "V3U16": (lambda: se.Vector3U16(-1.0, 1.0), 3, 0xFFFF), "V3U8": (lambda: se.Vector3U8(-1.0, 1.0), 3, 0xFF),
}


@st.composite
def quat_cases(draw):
    child = draw(st.sampled_from(sorted(_QUAT_CHILDREN)))
    _, n, hi = _QUAT_CHILDREN[child]
    if hi is None:
        elem = st.one_of(st.floats(-1.0, 1.0, width=32), st.sampled_from([0.0, -0.0, 1.0, -1.0, 0.5]))
    else:
        mid = (hi + 1) // 2
        elem = st.one_of(st.integers(0, hi), st.sampled_from([0, hi, mid, mid - 1, mid + 1]))
    return {"quat": child, "raw": [draw(elem) for _ in range(n)], "endian": draw(st.sampled_from("<>"))}


def quat_laws(case):
    import math
    import struct
    mk, n, hi = _QUAT_CHILDREN[case["quat"]]
    child, endian = mk(), case["endian"]
    spec = se.PackedQuat(child)
    fmt = endian + {None: "f", 0xFFFF: "H", 0xFF: "B"}[hi] * n
    data = struct.pack(fmt, *case["raw"])
    out = []
    try:
        c = tuple(se.BufferReader(endian, data).read(child))
        r = se.BufferReader(endian, data)
        q = r.read(spec)
        if len(r) != 0:
            out.append(("quat:framing", "PackedQuat(%s) left %d bytes unread" % (case["quat"], len(r))))
        qt = (q.X, q.Y, q.Z, q.W)
        if n == 4:
            want = c
        else:
            t = 1.0 - (c[0] * c[0] + c[1] * c[1] + c[2] * c[2])
            want = c + (math.sqrt(t) if t > 0 else 0.0,)
        if any(abs(a - b) > 1e-9 for a, b in zip(qt, want)):
            out.append(("quat:value:%d-component" % n, "PackedQuat(%s) of wire %s reads as %r, the wire components say %r" % (
                case["quat"], data.hex(), qt, want)))
        back = write(spec, q, endian)
        ref = write(child, child.COORD_CLS(*c) if hasattr(child, "COORD_CLS") else c, endian)
        if bytes(back) != bytes(ref):
            out.append(("quat:rewrite:%d-component" % n, "PackedQuat(%s): value read from %s is written back as %s (child alone: %s)" % (
                case["quat"], data.hex(), bytes(back).hex(), bytes(ref).hex())))
        q2 = se.BufferReader(endian, bytes(back)).read(spec)
        if any(abs(a - b) > 1e-9 for a, b in zip((q2.X, q2.Y, q2.Z, q2.W), qt)):
            out.append(("quat:roundtrip:%d-component" % n, "PackedQuat(%s): read(write(%r)) == %r" % (case["quat"], qt, tuple(q2))))
        # a plain tuple of the same components is accepted and encodes identically
        back_t = write(spec, qt, endian)
        if bytes(back_t) != bytes(back):
            out.append(("quat:tuple-form:%d-component" % n, "PackedQuat(%s): the tuple %r encodes as %s, the Quaternion as %s" % (
                case["quat"], qt, bytes(back_t).hex(), bytes(back).hex())))
    except Exception as e:
        out.append(("quat:raises:%s" % type(e).__name__, "PackedQuat(%s) on wire %s raised %r" % (case["quat"], data.hex(), e)))
    return out


def shards(tier):
    th = tier == "thorough"
    sh = [{"kind": "gen", "n": 12000 if th else 1500, "depth": 3 + (i % 2)} for i in range(16)]
    sh.append({"kind": "ood"})
    sh.append({"kind": "quat", "n": 40000 if th else 4000})
    return sh


def run_shard(ctx, shard):
    if shard["kind"] == "ood":
        n = 0
        for name, desc, value in ood_cases():
            n += 1
            res = check_ood(name, desc, value)
            if res:
                ctx.report({"ood": name}, res)
        ctx.bulk(n, n, {"ood": n}, {"ood": "byte_array:U8:256 etc."})
        return

    if shard["kind"] == "quat":
        def qbody(case):
            _, n, hi = _QUAT_CHILDREN[case["quat"]]
            zero_w = n == 4 and (case["raw"][3] == 0.0 if hi is None else case["raw"][3] in ((hi + 1) // 2, (hi + 1) // 2 - 1))
            ctx.case(("quat", case["quat"], tuple(case["raw"]), case["endian"]), nontrivial=len(set(case["raw"])) > 1,
                     classes=["quat:" + case["quat"], "quat:4-component:w-zero" if zero_w else "quat:other"])
            return quat_laws(case)
        hyp_run(ctx, quat_cases(), qbody, shard["n"])
        return

    def body(case):
        d = case["spec"]
        cls = ["kind:" + k for k in gs.kinds_in(d)]
        dep = gs.depth_of(d)
        if dep >= 2:
            cls.append("depth>=2")
        cls.append("self_delimiting" if gs.self_delimiting(d) else "window_consuming")
        ctx.case((gs.strip(d), case["value"]), nontrivial=dep >= 2, classes=cls)
        return laws(case)
    hyp_run(ctx, cases(shard["depth"]), body, shard["n"])


def replay(ctx, case):
    if "ood" in case:
        for name, desc, value in ood_cases():
            if name == case["ood"]:
                return check_ood(name, desc, value)
        return []
    if "quat" in case:
        return quat_laws(case)
    return laws(case)
