"""C19 - client endpoint: always ack, dispatch once, reliable sends complete on ack only."""
import asyncio
import types
from collections import Counter

from hypothesis import strategies as st

from hippolyzer.lib.base.datatypes import UUID
from hippolyzer.lib.base.message.message import Message, Block
from hippolyzer.lib.base.message.msgtypes import PacketFlags
from hippolyzer.lib.base.message.udpserializer import UDPMessageSerializer
from hippolyzer.lib.base.message.udpdeserializer import UDPMessageDeserializer
from hippolyzer.lib.base.test_utils import MockTransport
from hippolyzer.lib.client.hippo_client import HippoClientSession, HippoClientProtocol, ClientSettings

import checks.c05 as c05      # installs the harness clock into the circuit module
from vlib.runner import hyp_run

PROPERTY = "C19"
LEVEL = "exploration"
RULE = ("arrival/send histories on a real HippoClientSession + HippoClientProtocol + Circuit over a mock transport with a "
        "harness-owned clock: peer sends a new (un)reliable packet (possibly delayed and delivered out of order), retransmits an earlier one (1..3 copies, RESENT set or "
        "not, out of order), acks outstanding client sends via appended acks / PacketAck body / both (incl. duplicates and "
        "unknown IDs), client sends (un)reliable, clock advances + resend_unacked(), noise (malformed, UDP-banned, unknown "
        "host), keep-alive pings, one-shot waiters (taking or not, behind a rejecting predicate), reliable PacketAcks, the client's own resend pass.  "
        "Subscribers on session and region handlers, by name and wildcard.  Exhaustive to a depth bound over 17 "
        "concrete events (circuit alive flag both ways), Hypothesis walks beyond.  Non-trivial = history with a "
        "retransmission or an ack of a client send; distinct by event sequence.")
ASSUMPTIONS = [
    "histories stay within the 1,000-entry duplicate-suppression window",
    "the harness owns the clock and calls resend_unacked() itself (the production asyncio sleep loop is not exercised)",
]
EXHAUSTIVE_PARTS = {"quick": ["all sequences of 17 concrete events to depth 5, circuit alive flag both ways"],
                    "thorough": ["all sequences of 17 concrete events to depth 6, circuit alive flag both ways"]}
FLOORS = {"quick": {"h_nontrivial": 3000, "retransmission": 2000, "completed_by_ack": 1000, "timed_out": 4}}
MANIFEST = {
    "text": "Bounded-exhaustive enumeration of arrival/ack/send/clock events plus random walks on the real client endpoint, with "
            "per-(packet, subscriber) delivery counts, per-copy acknowledgement counts, future states and emitted packet IDs "
            "compared with a reference model after every event.",
    "note": "Depth-bounded for the exhaustive part (5 quick / 6 thorough); timers driven by the harness clock.",
    "technique": "bounded exhaustive + Hypothesis random walks of arrival histories against a reference model with a fake clock",
}

ADDR = ("10.0.0.1", 13000)
SER = UDPMessageSerializer()
DESER = UDPMessageDeserializer()
TRIES = 10
INTERVAL = 3.0
NAMES = ("ChatFromSimulator", "AlertMessage")


def _mk_peer_msg(name, pid, reliable, resent=False, acks=(), body=None):
    flags = (PacketFlags.RELIABLE if reliable else 0) | (PacketFlags.RESENT if resent else 0) | (PacketFlags.ACK if acks else 0)
    if name == "PacketAck":
        blocks = [Block("Packets", ID=i) for i in body]
    elif name == "ChatFromSimulator":
        blocks = [Block("ChatData", fill_missing=True)]
    elif name == "AlertMessage":
        blocks = [Block("AlertData", Message="x"), ]
    else:
        blocks = []
    m = Message(name, *blocks, packet_id=pid, flags=int(flags), acks=tuple(acks))
    return bytes(SER.serialize(m))


class Harness:
    def __init__(self, alive=True):
        c05._ensure_loop()
        sm = types.SimpleNamespace(http_session=None, settings=ClientSettings())
        self.session = HippoClientSession(UUID(int=1), UUID(int=2), UUID(int=3), 1234, session_manager=sm)
        self.transport = MockTransport()
        self.session.transport = self.transport
        self.region = self.session.register_region(ADDR, "http://127.0.0.1:1/seed", 1000)
        self.session.open_circuit(ADDR)
        self.circuit = self.region.circuit
        self.circuit.is_alive = alive
        self.protocol = HippoClientProtocol(self.session)
        self.deliveries = Counter()      # (subscriber, peer pid) -> count
        self.arrivals = Counter()        # peer pid -> copies received
        self.peer = {}                   # peer pid -> dict(name, reliable)
        self.peer_next = 1
        self.delayed = []
        self.use_client_loop = False
        self.waiters = {}
        self.rejecting = []
        self.seen_emitted = 0
        self.client_sends = {}           # client pid -> dict(reliable, state, tx, last, tries_left, future)
        self.last_new_pid = -1
        self.trace = []
        self.flags = set()
        for sub, handler in (("session", self.session.message_handler), ("region", self.region.message_handler)):
            for n in NAMES:
                handler.subscribe(n, self._make_cb(sub + ":" + n))
            handler.subscribe("*", self._make_cb(sub + ":*"))

    def _make_cb(self, tag):
        def cb(msg):
            self.deliveries[(tag, msg.packet_id)] += 1
        return cb

    def _new_emissions(self):
        out = []
        for data, dst in self.transport.packets[self.seen_emitted:]:
            m = DESER.deserialize(bytes(data))
            out.append({"pid": m.packet_id, "name": m.name, "reliable": bool(m.reliable), "resent": bool(m.resent),
                        "body": tuple(b["ID"] for b in m["Packets"]) if m.name == "PacketAck" else None, "dst": dst})
        self.seen_emitted = len(self.transport.packets)
        return out

    def _check_ids(self, em, out):
        for e in em:
            if e["resent"]:
                if e["pid"] not in self.client_sends:
                    out.append(("ids:resent-unknown", "retransmission with unknown id %r" % e["pid"]))
                continue
            if e["pid"] <= self.last_new_pid:
                out.append(("ids:not-increasing", "packet id %r issued after %r" % (e["pid"], self.last_new_pid)))
            self.last_new_pid = max(self.last_new_pid, e["pid"])
            if e["dst"] != ADDR:
                out.append(("emit:wrong-destination", "datagram sent to %r" % (e["dst"],)))

    def _feed(self, data, addr=ADDR):
        try:
            self.protocol.datagram_received(data, addr)
            return None
        except Exception as e:
            return e

    # ---- events ----
    def ev_recv(self, reliable, name_idx=0, acks=()):
        pid = self.peer_next
        self.peer_next += 1
        name = NAMES[name_idx]
        self.peer[pid] = {"name": name, "reliable": reliable}
        return self._deliver(pid, resent=False, acks=acks)

    def ev_skip(self, reliable):
        """the peer sends a packet that is delayed in the network (delivered later by ev_late)"""
        pid = self.peer_next
        self.peer_next += 1
        self.delayed.append((pid, {"name": NAMES[0], "reliable": reliable}))
        return []

    def ev_late(self):
        if not self.delayed:
            return None
        pid, info = self.delayed.pop(0)
        self.peer[pid] = info
        self.flags.add("reordered_arrival")
        return self._deliver(pid, resent=False)

    def ev_waiters(self, tag, name_idx, take=False):
        """two one-shot waiters (message_handler.wait_for) for the same message name: each is a subscriber like any other and
        un-subscribes itself while the event is being dispatched"""
        handler = self.session.message_handler if tag == "session" else self.region.message_handler
        name = NAMES[name_idx % 2]
        if name_idx >= 2:
            # a filtered subscriber whose predicate rejects everything, registered before the waiters that must still be served
            name = NAMES[name_idx - 2]
            self.rejecting.append(handler.wait_for((name,), predicate=lambda m: False, take=False))
            self.flags.add("rejecting_subscriber_first")
        for _ in range(2):
            # (a waiter that takes ownership of the message is still only one subscriber among the others, on both levels)
            self.waiters.setdefault((tag, name), []).append(handler.wait_for((name,), take=bool(take)))
        self.flags.add("waiters")
        if take:
            self.flags.add("taking_waiters")
        return []

    def ev_ping(self, mode):
        """the peer's keep-alive: StartPingCheck naming its oldest unacknowledged packet; the client answers from an async handler"""
        pid = self.peer_next
        self.peer_next += 1
        rel = sorted(p for p, i in self.peer.items() if i["reliable"] and self.arrivals[p] >= 1)
        oldest = {"all": self.peer_next, "first": rel[0] if rel else 0, "last": rel[-1] if rel else 0}[mode]
        data = bytes(SER.serialize(Message("StartPingCheck", Block("PingID", PingID=pid % 256, OldestUnacked=oldest), packet_id=pid, flags=0)))
        box = []

        async def go():
            box.append(self._feed(data))
            await asyncio.sleep(0.003)
        c05._ensure_loop().run_until_complete(go())
        out = []
        if box and box[0] is not None:
            out.append(("recv:raises:%s" % type(box[0]).__name__, "datagram_received raised %r for a StartPingCheck" % (box[0],)))
        em = self._new_emissions()
        self._check_ids(em, out)
        self.flags.add("ping")
        return out

    def ev_goodbye(self, reliable):
        """the peer's last packet on this circuit (DisableSimulator) carries the acknowledgements for what the client has outstanding:
        those sends are acknowledged like by any other packet, whatever the client does with the circuit afterwards"""
        outstanding = [i for i, r in self.client_sends.items() if r["reliable"] and r["state"] == "pending"][:8]
        if not outstanding:
            return None
        pid = self.peer_next
        self.peer_next += 1
        exc = self._feed(_mk_peer_msg("DisableSimulator", pid, reliable, acks=outstanding))
        out = []
        if exc is not None:
            out.append(("recv:raises:%s" % type(exc).__name__, "datagram_received raised %r for DisableSimulator" % (exc,)))
        self._new_emissions()
        self._apply_acks(outstanding)
        out.extend(self._check_futures())
        self.finished = True
        self.flags.add("acks_on_teardown")
        return out

    def ev_retransmit_with_acks(self, which, pick):
        """the peer retransmits a reliable packet the client has already handled and piggy-backs acknowledgements on that copy"""
        cands = sorted(p for p, i in self.peer.items() if i["reliable"] and self.arrivals[p] >= 1)
        outstanding = [i for i, r in self.client_sends.items() if r["reliable"] and r["state"] == "pending"]
        if not cands or not outstanding:
            return None
        pid = cands[which % len(cands)]
        ids = outstanding[:1] if pick == "oldest" else outstanding[:4]
        self.flags.add("retransmission")
        self.flags.add("acks_on_retransmission")
        return self._deliver(pid, resent=True, acks=ids)

    def ev_retransmit(self, which, copies, resent_flag):
        cands = sorted(self.peer)
        if not cands:
            return None
        pid = cands[which % len(cands)]
        out = []
        for _ in range(copies):
            out.extend(self._deliver(pid, resent=resent_flag))
        self.flags.add("retransmission")
        return out

    def _deliver(self, pid, resent, acks=()):
        info = self.peer[pid]
        data = _mk_peer_msg(info["name"], pid, info["reliable"], resent=resent, acks=acks)
        before = Counter(self.deliveries)
        exc = self._feed(data)
        out = []
        if exc is not None:
            out.append(("recv:raises:%s" % type(exc).__name__, "datagram_received raised %r for a valid packet" % (exc,)))
        self.arrivals[pid] += 1
        em = self._new_emissions()
        self._check_ids(em, out)
        acks_for = [e for e in em if e["name"] == "PacketAck" and e["body"] is not None and pid in e["body"]]
        other = [e for e in em if e not in acks_for]
        if info["reliable"]:
            n = sum(e["body"].count(pid) for e in acks_for)
            if n != 1:
                out.append(("ack:count", "copy #%d of reliable packet %d was acknowledged %d times (circuit alive=%s)" % (
                    self.arrivals[pid], pid, n, self.circuit.is_alive)))
        elif acks_for:
            out.append(("ack:unreliable-acked", "unreliable packet %d was acknowledged" % pid))
        if other:
            out.append(("emit:unexpected", "unexpected emissions on receive: %r" % (other,)))
        # dispatch
        for tag in ("session", "region"):
            for sub in (info["name"], "*"):
                key = ("%s:%s" % (tag, sub), pid)
                delta = self.deliveries[key] - before[key]
                if info["reliable"]:
                    expected = 1 if self.arrivals[pid] == 1 else 0
                else:
                    expected = 1
                if delta != expected:
                    kind = "duplicate" if delta > expected else "lost"
                    out.append(("dispatch:%s:%s:%s" % (kind, tag, "wildcard" if sub == "*" else "named"),
                                "%s subscriber %r got copy #%d of %s packet %d %d times (expected %d)" % (
                                    tag, sub, self.arrivals[pid], "reliable" if info["reliable"] else "unreliable", pid, delta, expected)))
                if sub != "*" and expected == 1:
                    for w in self.waiters.pop((tag, info["name"]), []):
                        if not w.done():
                            out.append(("dispatch:lost:%s:waiter" % tag, "a wait_for() waiter for %s on the %s handler did not get %s packet %d "
                                        "although it was dispatched" % (info["name"], tag, "reliable" if info["reliable"] else "unreliable", pid)))
                            w.cancel()
        self._apply_acks(acks)
        out.extend(self._check_futures())
        return out

    def _apply_acks(self, ids):
        for i in ids:
            rec = self.client_sends.get(i)
            if rec and rec["reliable"] and rec["state"] == "pending":
                rec["state"] = "acked"
                self.flags.add("completed_by_ack")

    def ev_ack(self, form, pick):
        outstanding = [i for i, r in self.client_sends.items() if r["reliable"] and r["state"] == "pending"]
        allr = [i for i, r in self.client_sends.items() if r["reliable"]]
        if pick == "all":
            ids = outstanding[:5]
        elif pick == "oldest":
            ids = outstanding[:1]
        elif pick == "newest":
            ids = outstanding[-1:]
        elif pick == "dup":
            ids = (outstanding[:1] * 2) or (allr[-1:] * 2)
        elif pick == "unknown":
            ids = [987654]
        else:
            ids = allr[-2:]
        if not ids:
            return None
        pid = self.peer_next
        self.peer_next += 1
        out = []
        if form == "appended":
            self.peer[pid] = {"name": NAMES[0], "reliable": False}
            out = self._deliver(pid, False, acks=ids)
        else:
            body, acks = (ids, ()) if form == "body" else (ids[:1], ids[1:] or ids[:1])
            data = _mk_peer_msg("PacketAck", pid, False, acks=acks, body=body)
            exc = self._feed(data)
            if exc is not None:
                out.append(("recv:raises:%s" % type(exc).__name__, "PacketAck raised %r" % (exc,)))
            em = self._new_emissions()
            if em:
                out.append(("emit:unexpected", "emissions on receiving a PacketAck: %r" % (em,)))
            self._apply_acks(list(body) + list(acks))
            out.extend(self._check_futures())
        return out

    def ev_packetack_reliable(self, pick):
        """a PacketAck that is itself flagged reliable (legal): it is a reliable packet like any other - acknowledged, and
        dispatched once to the subscribers that listen to everything"""
        outstanding = [i for i, r in self.client_sends.items() if r["reliable"] and r["state"] == "pending"]
        ids = {"all": outstanding[:4], "oldest": outstanding[:1]}.get(pick) or [987654]
        pid = self.peer_next
        self.peer_next += 1
        before = Counter(self.deliveries)
        exc = self._feed(_mk_peer_msg("PacketAck", pid, True, body=ids))
        out = []
        if exc is not None:
            out.append(("recv:raises:%s" % type(exc).__name__, "reliable PacketAck raised %r" % (exc,)))
        em = self._new_emissions()
        self._check_ids(em, out)
        n = sum(e["body"].count(pid) for e in em if e["name"] == "PacketAck" and e["body"] is not None)
        if n != 1:
            out.append(("ack:count", "reliable PacketAck %d was acknowledged %d times" % (pid, n)))
        for tag in ("session", "region"):
            delta = self.deliveries[("%s:*" % tag, pid)] - before[("%s:*" % tag, pid)]
            if delta != 1:
                out.append(("dispatch:%s:%s:wildcard" % ("lost" if delta < 1 else "duplicate", tag),
                            "%s wildcard subscriber got PacketAck %d %d times" % (tag, pid, delta)))
        self._apply_acks(ids)
        self.flags.add("reliable_packetack")
        out.extend(self._check_futures())
        return out

    def ev_client_send(self, reliable, stale_id=False):
        msg = Message("ChatFromViewer", Block("AgentData", fill_missing=True), Block("ChatData", fill_missing=True))
        if stale_id:
            # e.g. a received message bounced back out: it still carries somebody else's sequence number
            msg.packet_id = 1
            self.flags.add("send_with_preset_id")
        fut = None
        if reliable:
            fut = self.circuit.send_reliable(msg)
        else:
            self.circuit.send(msg)
        out = []
        em = self._new_emissions()
        self._check_ids(em, out)
        if len(em) != 1 or em[0]["name"] != "ChatFromViewer" or em[0]["reliable"] != reliable or em[0]["resent"]:
            out.append(("send:emission", "client send produced %r" % (em,)))
            return out
        self.client_sends[em[0]["pid"]] = {"reliable": reliable, "state": "pending" if reliable else "n/a", "tx": 1,
                                           "last": c05._CLOCK.t, "tries_left": TRIES, "future": fut}
        out.extend(self._check_futures())
        return out

    def _client_resend_pass(self):
        """one pass of the client's own polling routine (HippoClient._attempt_resends) over the session's regions"""
        import types as _types
        from hippolyzer.lib.client.hippo_client import HippoClient
        loop = c05._ensure_loop()
        task = loop.create_task(HippoClient._attempt_resends(_types.SimpleNamespace(session=self.session)))
        loop.run_until_complete(asyncio.sleep(0))
        task.cancel()
        loop.run_until_complete(asyncio.sleep(0))

    def ev_dead_region_first(self):
        """the session also knows a neighbour whose circuit is not alive, listed before the region under test"""
        if self.use_client_loop or not self.circuit.is_alive:
            return None
        other = ("10.0.0.2", 13001)
        r = self.session.register_region(other, "http://127.0.0.1:1/seed2", 1001)
        self.session.open_circuit(other)
        r.circuit.is_alive = False
        self.session.regions.remove(r)
        self.session.regions.insert(0, r)
        self.use_client_loop = True
        self.flags.add("dead_region_listed_first")
        return []

    def ev_tick(self, seconds):
        c05._CLOCK.advance(seconds)
        if self.use_client_loop:
            self._client_resend_pass()
        else:
            self.circuit.resend_unacked()
        em = self._new_emissions()
        out = []
        expected = []
        for pid, rec in self.client_sends.items():
            if rec["state"] != "pending":
                continue
            if (c05._CLOCK.t - rec["last"]).total_seconds() < INTERVAL:
                continue
            rec["tries_left"] -= 1
            if rec["tries_left"] == 0:
                rec["state"] = "timed_out"
                self.flags.add("timed_out")
                continue
            rec["last"] = c05._CLOCK.t
            rec["tx"] += 1
            expected.append(pid)
        got = sorted(e["pid"] for e in em)
        if got != sorted(expected):
            done = [p for p in got if p in self.client_sends and self.client_sends[p]["state"] != "pending"]
            out.append(("resend:%s" % ("after-completion" if done else "mismatch"),
                        "retransmitted %r, expected %r" % (got, sorted(expected))))
        for e in em:
            if not e["resent"] or not e["reliable"]:
                out.append(("resend:flags", "retransmission without RESENT/RELIABLE: %r" % (e,)))
        out.extend(self._check_futures())
        return out

    def ev_noise(self, kind):
        before = (Counter(self.deliveries), len(self.transport.packets), dict(self.circuit.unacked_reliable))
        if kind == "malformed":
            self._feed(b"\x00\x00\x00")
            self._feed(bytes([0x40]) + (9999).to_bytes(4, "big") + b"\x00\xff\xff\xff\x01")
        elif kind == "banned":
            m = Message("EnableSimulator", Block("SimulatorInfo", Handle=1, IP="1.2.3.4", Port=5), packet_id=4242, flags=int(PacketFlags.RELIABLE))
            self._feed(bytes(SER.serialize(m)))
        elif kind == "unknown_host":
            self._feed(_mk_peer_msg(NAMES[0], 777, True), ("10.9.9.9", 1))
        out = []
        if Counter(self.deliveries) != before[0]:
            out.append(("noise:dispatched:%s" % kind, "a %s datagram reached subscribers" % kind))
        if len(self.transport.packets) != before[1]:
            em = self._new_emissions()
            out.append(("noise:answered:%s" % kind, "a %s datagram was answered: %r" % (kind, em)))
        out.extend(self._check_futures())
        return out

    def _check_futures(self):
        out = []
        for pid, rec in self.client_sends.items():
            if not rec["reliable"]:
                continue
            f = rec["future"]
            st_ = rec["state"]
            if st_ == "pending" and f.done():
                out.append(("future:early", "send %d completed without an ack and within its retry budget" % pid))
            elif st_ == "acked" and (not f.done() or f.cancelled() or f.exception() is not None):
                out.append(("future:not-completed-on-ack", "send %d was acknowledged but its future is %r" % (pid, f)))
            elif st_ == "timed_out" and (not f.done() or f.cancelled() or not isinstance(f.exception(), TimeoutError)):
                out.append(("future:no-timeout", "send %d exhausted its retry budget but its future is %r" % (pid, f)))
        return out

    def step(self, ev):
        k = ev[0]
        if getattr(self, "finished", False):
            return None
        if k == "recv":
            r = self.ev_recv(ev[1], ev[2] if len(ev) > 2 else 0)
        elif k == "rtx":
            r = self.ev_retransmit(ev[1], ev[2], ev[3])
        elif k == "waiters":
            r = self.ev_waiters(ev[1], ev[2], ev[3] if len(ev) > 3 else False)
        elif k == "ping":
            r = self.ev_ping(ev[1])
        elif k == "goodbye":
            r = self.ev_goodbye(ev[1])
        elif k == "rtxack":
            r = self.ev_retransmit_with_acks(ev[1], ev[2])
        elif k == "skip":
            r = self.ev_skip(ev[1])
        elif k == "late":
            r = self.ev_late()
        elif k == "ack":
            r = self.ev_ack(ev[1], ev[2])
        elif k == "csend":
            r = self.ev_client_send(ev[1])
        elif k == "dead_region_first":
            r = self.ev_dead_region_first()
        elif k == "peer_zero":
            # the peer numbers its packets from 0 (hippolyzer's own endpoints do) instead of 1
            if self.peer or self.delayed:
                return None
            self.peer_next = 0
            self.flags.add("peer_ids_from_zero")
            r = []
        elif k == "csend_stale":
            r = self.ev_client_send(ev[1], stale_id=True)
        elif k == "packr":
            r = self.ev_packetack_reliable(ev[1])
        elif k == "tick":
            r = self.ev_tick(ev[1])
        elif k == "noise":
            r = self.ev_noise(ev[1])
        else:
            raise ValueError(ev)
        if r is not None:
            self.trace.append(ev)
        return r

    def classes(self):
        cls = set(self.flags)
        if "retransmission" in cls or "completed_by_ack" in cls:
            cls.add("h_nontrivial")
        for e in self.trace:
            cls.add("ev_" + e[0])
        return sorted(cls)

    def teardown(self):
        for w in self.rejecting:
            if not w.done():
                w.cancel()
        for ws in self.waiters.values():
            for w in ws:
                if not w.done():
                    w.cancel()
        for rec in self.client_sends.values():
            f = rec["future"]
            if f is not None and f.done() and not f.cancelled():
                f.exception()


ALPHABET = [
    ("recv", True, 0), ("recv", False, 1), ("rtx", -1, 1, True), ("rtx", 0, 2, False),
    ("csend", True), ("csend", False), ("ack", "appended", "all"), ("ack", "body", "newest"), ("ack", "both", "recent"),
    ("ack", "body", "unknown"), ("tick", 3.1), ("noise", "banned"), ("skip", True), ("late",),
    ("waiters", "session", 0, True), ("rtxack", 0, "oldest"), ("ping", "all"),
]


def run_sequence(events, alive):
    h = Harness(alive)
    res = []
    for ev in events:
        r = h.step(tuple(ev))
        if r is None:
            h.teardown()
            return None, h
        res.extend(r)
        if res:
            break
    h.teardown()
    return res, h


def shards(tier):
    th = tier == "thorough"
    depth = 6 if th else 5
    sh = []
    for alive in (True, False):
        for a in range(len(ALPHABET)):
            for b in range(len(ALPHABET)):
                sh.append({"kind": "enum", "alive": alive, "prefix": [a, b], "depth": depth})
    for i in range(16):
        sh.append({"kind": "walk", "n": 1200 if th else 120, "maxsteps": 150 if th else 50})
    sh.append({"kind": "budget"})
    return sh


def _enum(ctx, alive, prefix, depth):
    n = nt = 0
    cls = Counter()
    sample = None

    def rec(seq):
        nonlocal n, nt, sample
        res, h = run_sequence([ALPHABET[i] for i in seq], alive)
        if res is None:
            return
        n += 1
        c = h.classes()
        cls.update(c)
        if "h_nontrivial" in c:
            nt += 1
            if sample is None and len(seq) == depth:
                sample = {"alive": alive, "events": [ALPHABET[i] for i in seq]}
        if res:
            ctx.report({"alive": alive, "events": [list(ALPHABET[i]) for i in seq]}, res)
            return
        if len(seq) < depth:
            for i in range(len(ALPHABET)):
                rec(seq + [i])
    rec(list(prefix))
    ctx.bulk(n, nt, dict(cls), sample)


EV = st.one_of(
    st.tuples(st.just("recv"), st.booleans(), st.integers(0, 1)),
    st.tuples(st.just("rtx"), st.integers(-3, 3), st.integers(1, 3), st.booleans()),
    st.tuples(st.just("csend"), st.booleans()), st.tuples(st.just("csend"), st.just(True)),
    st.tuples(st.just("skip"), st.booleans()), st.tuples(st.just("late")),
    st.tuples(st.just("waiters"), st.sampled_from(["session", "region"]), st.integers(0, 3), st.booleans()),
    st.tuples(st.just("ping"), st.sampled_from(["all", "first", "last"])),
    st.tuples(st.just("goodbye"), st.booleans()),
    st.tuples(st.just("packr"), st.sampled_from(["all", "oldest", "unknown"])),
    st.tuples(st.just("csend_stale"), st.booleans()),
    st.tuples(st.just("rtxack"), st.integers(0, 3), st.sampled_from(["oldest", "all"])),
    st.tuples(st.just("ack"), st.sampled_from(["appended", "body", "both"]), st.sampled_from(["all", "oldest", "newest", "dup", "unknown", "recent"])),
    st.tuples(st.just("tick"), st.sampled_from([3.1, 1.0, 3.0, 7.0, 86401.0, 172802.5])),
    st.tuples(st.just("noise"), st.sampled_from(["malformed", "banned", "unknown_host"])),
)
WALK = st.tuples(st.booleans(), st.lists(EV, min_size=3, max_size=150), st.integers(0, 2)).map(
    lambda t: (t[0], ([("peer_zero",)] if t[2] == 0 else []) + ([("dead_region_first",)] if t[2] == 1 else []) + list(t[1])))


def run_shard(ctx, shard):
    if shard["kind"] == "enum":
        _enum(ctx, shard["alive"], shard["prefix"], shard["depth"])
    elif shard["kind"] == "walk":
        def body(case):
            alive, evs = case
            h = Harness(alive)
            res = []
            for ev in evs[:shard["maxsteps"]]:
                r = h.step(ev)
                if r is None:
                    continue
                res.extend(r)
                if res:
                    break
            h.teardown()
            ctx.case((alive, tuple(h.trace)), nontrivial="h_nontrivial" in h.classes(), classes=h.classes() + ["walk"])
            return res
        hyp_run(ctx, WALK, body, shard["n"])
    else:
        for seconds in (3.1, 3.0, 50.0):
            evs = [("csend", True)] + [("tick", seconds)] * 12 + [("ack", "body", "recent")]
            for alive in (True, False):
                res, h = run_sequence(evs, alive)
                ctx.bulk(1, 1, {"budget_runs": 1, "timed_out": 1 if "timed_out" in h.flags else 0})
                if res:
                    ctx.report({"alive": alive, "events": [list(e) for e in evs]}, res)
        # heavy retransmission inside the duplicate-suppression window: n further packets, each arriving `copies` times (fewer than 1,000
        # distinct ids in all), then the very first packet again
        for n, copies in ((600, 2), (400, 3), (990, 1)):
            evs = [("recv", True, 0)]
            for _ in range(n):
                evs.append(("recv", True, 1))
                if copies > 1:
                    evs.append(("rtx", -1, copies - 1, True))
            evs.append(("rtx", 0, 1, True))
            res, h = run_sequence(evs, True)
            ctx.bulk(1, 1, {"window_runs": 1})
            if res:
                ctx.report({"alive": True, "events": [list(e) for e in evs[:3]] + [["...", n, copies]] + [list(evs[-1])], "window": [n, copies]}, res)
        # a busy circuit: the peer keeps sending (and the client keeps acknowledging) while a send of the client's own waits for its ack
        for step_s in (1.0, 0.5, 2.0):
            evs = [("csend", True)]
            for _ in range(int(36 / step_s)):
                evs += [("recv", True, 0), ("tick", step_s)]
            for alive in (True, False):
                res, h = run_sequence(evs, alive)
                ctx.bulk(1, 1, {"budget_runs": 1, "busy_circuit_runs": 1, "timed_out": 1 if "timed_out" in h.flags else 0})
                if res:
                    ctx.report({"alive": alive, "events": [list(e) for e in evs]}, res)
        for tail in ([("goodbye", True)], [("csend", True), ("goodbye", False)]):
            evs = [("recv", True, 0), ("csend", True)] + tail
            for alive in (True, False):
                res, h = run_sequence(evs, alive)
                ctx.bulk(1, 1, {"budget_runs": 1})
                if res:
                    ctx.report({"alive": alive, "events": [list(e) for e in evs]}, res)


def replay(ctx, case):
    if not isinstance(case, dict):
        case = {"alive": case[0], "events": case[1]}
    h = Harness(case["alive"])
    res = []
    if case.get("window"):
        n, copies = case["window"]
        evs = [("recv", True, 0)]
        for _ in range(n):
            evs.append(("recv", True, 1))
            if copies > 1:
                evs.append(("rtx", -1, copies - 1, True))
        evs.append(("rtx", 0, 1, True))
        case = dict(case, events=evs)
    for ev in case["events"]:
        r = h.step(tuple(ev))
        if r is None:
            continue
        res.extend(r)
    h.teardown()
    return res
