"""C18 - message log: filters mean what they say and the view equals the filtered log."""
import fnmatch

from hypothesis import strategies as st
from mitmproxy.test import tflow, tutils

from hippolyzer.lib.base.datatypes import UUID, TupleCoord, TaggedUnion
from hippolyzer.lib.base.message.udpdeserializer import UDPMessageDeserializer
from hippolyzer.lib.base.message.udpserializer import UDPMessageSerializer
from hippolyzer.lib.base.network.transport import Direction
from hippolyzer.lib.base.settings import Settings
from hippolyzer.lib.proxy.caps import CapData, CapType
from hippolyzer.lib.proxy.http_flow import HippoHTTPFlow
from hippolyzer.lib.proxy.message_filter import compile_filter
from hippolyzer.lib.proxy.message_logger import (FilteringMessageLogger, WrappingMessageLogger, LLUDPMessageLogEntry,
                                                 EQMessageLogEntry, HTTPMessageLogEntry, export_log_entries, import_log_entries)

from vlib import gen_template as gt
from vlib.proxy_harness import ProxyWorld
from vlib.runner import hyp_run
from checks.c02 import ref_datagram

PROPERTY = "C18"
LEVEL = "exploration"
RULE = ("(A) filter expression trees (depth <= 4) over leaves {bare selectors with globs, Meta.* selectors, field comparisons with "
        "all 10 operators against literals of every kind (str, bytes, int, hex, float, None/True/False, 3- and 4-tuples), enum and "
        "Meta right-hand sides, 4-part subfield selectors, selectors rooted at the entry type}, rendered fully parenthesised, evaluated on generated LLUDP (fresh and "
        "frozen), EQ and HTTP entries with and without short-circuit, compared with a fold of the leaf truths and (for field "
        "comparisons) an independent evaluator; (B) operation sequences {log entry of 3 kinds, set_filter from a pool, pause, "
        "resume, clear, overflow bursts} on FilteringMessageLogger (retention 3..8) and a two-logger WrappingMessageLogger against "
        "a ring+view model; (C) export/import and freeze/thaw of entries.  Non-trivial = expression with >= 2 leaves / history "
        "with a re-filter after an overflow; distinct by content.")
ASSUMPTIONS = [
    "`retained` = entries in the retention ring plus entries that aged out of it while visible and have matched every filter since (the logger's documented behaviour on re-filter)",
    "exported/imported messages are compared by value with sequences normalised (LLSD notation has only arrays) and by their re-encoded datagram",
    "filter literals are restricted to what the filter grammar can express (non-negative decimal numbers, hex, quoted strings, 3/4-tuples)",
]
FLOORS = {"quick": {"pairs": 3000, "leaf_errors_possible": 500, "histories": 300, "h_overflow_refilter": 50, "persist": 300, "frozen_unparsed": 20, "entry:ou": 300,
                    "entry:LLUDP": 1000, "entry:EQ": 300, "entry:HTTP": 300, "entry:frozen": 180, "truth:true": 500, "truth:false": 500}}
MANIFEST = {
    "text": "Program-level generation of filter expressions with a denotational oracle (fold of leaf truths + independent leaf "
            "evaluator), a stateful model of the retention ring and visible list for logger histories, and round-trip checks for "
            "export/import and freeze/thaw.",
    "note": "Sampling. Leaves are derived from the entry under test (so that comparisons really select existing fields) and from a random pool.",
    "technique": "Hypothesis expression-tree generation with denotational oracle; model-based stateful testing of the logger; round-trip oracles",
}

SER = UDPMessageSerializer()
_S = Settings()
_S.ENABLE_DEFERRED_PACKET_PARSING = False
DESER = UDPMessageDeserializer(settings=_S)
_SL = Settings()
_SL.ENABLE_DEFERRED_PACKET_PARSING = True          # what the proxy itself runs with
DESER_LAZY = UDPMessageDeserializer(settings=_SL)
OPS = ["==", "!=", "^=", "$=", "~=", ">", ">=", "<", "<=", "&"]

_WORLD = None


def world():
    global _WORLD
    if _WORLD is None:
        _WORLD = ProxyWorld(1, 1)
        sess = _WORLD.viewers[0]["session"]
        sess.regions[0].name = "Testville"
    return _WORLD


# ---- entries ------------------------------------------------------------------------------------------------
def make_entry(desc):
    w = world()
    sess = w.viewers[0]["session"]
    region = sess.regions[0]
    kind = desc["kind"]
    if kind == "frozen_unparsed":
        # logged from the wire with deferred body parsing, rejected by the active filter on its name alone, so nothing looked at
        # its body before the logger froze it (WrappingMessageLogger.add_log_entry without cache_summary)
        msg = DESER_LAZY.deserialize(ref_datagram(desc["case"]))
        msg.direction = Direction.OUT if desc.get("out", True) else Direction.IN
        e = LLUDPMessageLogEntry(msg, region, sess)
        e.freeze()
        return e
    if kind == "ou":
        e = LLUDPMessageLogEntry(_object_update(desc), region, sess)
        return e
    if kind == "synthetic":
        # a message the proxy (or an addon) built itself and logged before any circuit gave it a packet id
        msg = gt.build(desc["case"])
        msg.packet_id = None
        msg.direction = Direction.OUT if desc.get("out", True) else Direction.IN
        msg.synthetic = True
        msg.dropped = bool(desc.get("dropped"))
        return LLUDPMessageLogEntry(msg, region, sess)
    if kind in ("LLUDP", "frozen"):
        msg = DESER.deserialize(ref_datagram(desc["case"]))
        msg.direction = Direction.OUT if desc.get("out", True) else Direction.IN
        e = LLUDPMessageLogEntry(msg, region, sess)
        if kind == "frozen":
            e.cache_summary()
            e.freeze()
        return e
    if kind == "EQ":
        return EQMessageLogEntry({"message": desc["name"], "body": desc["body"]}, region, sess)
    req = tutils.treq(host="caps.example.com", port=80, method=desc["method"].encode(), path=desc["path"].encode())
    resp = tutils.tresp(status_code=desc["status"])
    f = tflow.tflow(req=req, resp=resp)
    flow = HippoHTTPFlow.from_state(f.get_state(), w.sm)
    if desc.get("cap"):
        flow.cap_data = CapData(desc["cap"], None, None, "http://caps.example.com/", CapType.NORMAL)
    elif desc.get("cap") == "":
        # what resolve_cap() attaches to a URL that is no known capability: cap data that is present but empty
        flow.cap_data = CapData()
    return HTTPMessageLogEntry(flow)


def _object_update(desc):
    """an ObjectUpdate as it comes off the wire, with a well-formed 60-byte ObjectData sub-structure (several 3-vectors)"""
    from hippolyzer.lib.base.message.message import Block, Message
    from hippolyzer.lib.base.datatypes import UUID as _UUID, Vector3 as _V3
    from hippolyzer.lib.base.templates import PCode
    b = Block("ObjectData", ID=desc["id"], FullID=_UUID(int=desc["id"] + 1), PCode=PCode.PRIMITIVE, Scale=_V3(0.5, 0.5, 0.5), UpdateFlags=0,
              PathCurve=16, ParentID=0, ProfileCurve=1, PathScaleX=100, PathScaleY=100, NameValue=None, TextureEntry=b"",
              TextColor=b"\x00\x00\x00\x00", ExtraParams=b"\x00", fill_missing=True)
    m = Message("ObjectUpdate", Block("RegionData", RegionHandle=1, TimeDilation=1), b, packet_id=5, direction=Direction.IN)
    b.serialize_var("ObjectData", (60, {"Position": tuple(desc["pos"]), "Velocity": tuple(desc["vel"]), "Acceleration": tuple(desc["acc"]),
                                        "Rotation": (0.0, 0.0, 0.0, 1.0), "AngularVelocity": tuple(desc["ang"])}))
    msg = DESER.deserialize(bytes(SER.serialize(m)))
    msg.direction = Direction.IN
    return msg


_SMALL_VEC = st.tuples(*[st.sampled_from([0.0, 0.0, 1.0, 2.0, 3.5])] * 3)
def _own_ids(t):
    """every fourth message names the session's own agent / session in its AgentID / SessionID fields, as most real traffic does"""
    case, flag = t
    if flag:
        return case
    tmpl = gt.TEMPLATES[case["name"]]
    blocks = []
    for bname, insts in case["blocks"]:
        tb = tmpl.get_block(bname)
        uu = {v.name for v in tb.variables if v.type == gt.T.MVT_LLUUID}
        blocks.append((bname, [{k: ("%032x" % 0x3000 if k == "AgentID" and k in uu else ("%032x" % 0x1000 if k == "SessionID" and k in uu else v))
                                for k, v in d.items()} for d in insts]))
    return dict(case, blocks=blocks)


OU_ENTRY = st.fixed_dictionaries({"kind": st.just("ou"), "id": st.integers(1, 1000), "pos": _SMALL_VEC, "vel": _SMALL_VEC, "acc": _SMALL_VEC, "ang": _SMALL_VEC})
ENTRY = st.one_of(OU_ENTRY, 
    st.fixed_dictionaries({"kind": st.sampled_from(["LLUDP", "LLUDP", "frozen", "frozen_unparsed"]), "out": st.booleans(),
                           "case": st.tuples(gt.message_case(finite=True, with_header=True, omit_trailing=False).map(
                               lambda c: dict(c, extra=b"", acks=c["acks"][:3])), st.integers(0, 3)).map(_own_ids)}),
    st.fixed_dictionaries({"kind": st.just("EQ"), "name": st.sampled_from(["EnableSimulator", "ParcelProperties", "AgentGroupDataUpdate", "FooEvent"]),
                           "body": st.dictionaries(st.sampled_from(["a", "b", "Flags"]), st.one_of(st.integers(0, 100), st.text(max_size=5)), max_size=3)}),
    st.fixed_dictionaries({"kind": st.just("HTTP"), "method": st.sampled_from(["GET", "POST", "PUT"]), "path": st.sampled_from(["/x", "/cap/1", "/"]),
                           "status": st.sampled_from([200, 404, 499, 502]), "cap": st.sampled_from([None, "", "FetchInventory2", "Seed", "EventQueueGet"])}),
)


# ---- literals & leaves ----------------------------------------------------------------------------------------
SAFE_CHARS = st.characters(min_codepoint=0x20, max_codepoint=0x7E, blacklist_characters="\\'\"")


def lit_text(v):
    """filter-grammar literal for a python value, or None if the grammar cannot express it"""
    if v is None or isinstance(v, bool):
        return repr(v)
    if isinstance(v, int):
        return str(v) if v >= 0 else None
    if isinstance(v, float):
        r = repr(v)
        return r if v >= 0 and not r.startswith("-") and "e" not in r and "inf" not in r and "nan" not in r else None
    if isinstance(v, str):
        return repr(v) if all(0x20 <= ord(c) <= 0x7E and c not in "\\'\"" for c in v) else None
    if isinstance(v, bytes):
        return repr(bytes(v)) if all(0x20 <= c <= 0x7E and chr(c) not in "\\'\"" for c in v) else None
    if isinstance(v, tuple) and len(v) in (3, 4) and all(isinstance(x, (int, float)) and not isinstance(x, bool) for x in v):
        parts = [lit_text(x) for x in v]
        return "(%s)" % ", ".join(parts) if all(parts) else None
    return None


RANDOM_LIT = st.one_of(
    st.integers(0, 300), st.sampled_from([0, 1, 255, 2 ** 32]), st.integers(0, 255).map(lambda i: ("hex", i)),
    st.floats(min_value=0, max_value=1000, allow_nan=False).map(lambda f: round(f, 3)),
    st.text(SAFE_CHARS, max_size=6), st.text(SAFE_CHARS, max_size=4).map(lambda s: s.encode()),
    st.none(), st.booleans(),
    st.tuples(st.integers(0, 9), st.integers(0, 9), st.integers(0, 9)),
    st.tuples(st.integers(0, 9), st.floats(min_value=0, max_value=9).map(lambda f: round(f, 2)), st.integers(0, 9), st.integers(0, 9)),
)


def _lit(v):
    if isinstance(v, tuple) and len(v) == 2 and v[0] == "hex":
        return hex(v[1]), v[1]
    t = lit_text(v)
    return (t, v) if t is not None else ("0", 0)


@st.composite
def leaf_for(draw, edesc):
    """a leaf as plain data: ("bare", text) | ("cmp", selector tuple, op, literal text, literal value or RHS tag)"""
    kind = edesc["kind"]
    choice = draw(st.integers(0, 9))
    if kind == "ou":
        if choice <= 1:
            return ("bare", draw(st.sampled_from(["ObjectUpdate", "Object*", "*", "LLUDP", "ChatFromViewer"])))
        if choice <= 7:
            # 4-part selectors into the decoded ObjectData sub-structure, literal taken from one of its members (often not the first)
            subs = ["Position", "Velocity", "Acceleration", "AngularVelocity"]
            part = draw(st.sampled_from(["*", "*", "Velocity", "A*", "*ion", "Position", "NoSuch*"]))
            src = draw(st.sampled_from(["pos", "vel", "acc", "ang", "other"]))
            v = tuple(edesc[src]) if src != "other" else draw(_SMALL_VEC)
            t, v = _lit(v)
            op = draw(st.sampled_from(["==", "==", "!=", "<", ">=", "^="]))
            # (the member that holds the sub-structure may be named, or matched by a pattern that also matches members without one)
            var = draw(st.sampled_from(["ObjectData", "ObjectData", "*", "*Data", "O*"]))
            if draw(st.integers(0, 5)) == 0:
                return ("bare", "ObjectUpdate.ObjectData.%s.%s" % (var, part))
            return ("cmp", (draw(st.sampled_from(["ObjectUpdate", "*"])), "ObjectData", var, part), op, t, v)
        return ("cmp", ("ObjectUpdate", "ObjectData", draw(st.sampled_from(["ID", "ParentID", "*"]))), draw(st.sampled_from(OPS)), *_lit(draw(st.sampled_from([edesc["id"], 0, 7]))))
    if kind in ("LLUDP", "frozen", "frozen_unparsed"):
        name = edesc["case"]["name"]
        blocks = edesc["case"]["blocks"]
    else:
        name = edesc.get("name") or (edesc.get("cap") or "http://caps.example.com")
        blocks = []
    if choice <= 1:
        pool = [name if all(c.isalnum() for c in name) else "*", "*", name[:3] + "*" if name[:3].isalnum() else "*", "LLUDP", "EQ", "HTTP",
                "ChatFromViewer", "*Update*", "Object*"]
        return ("bare", draw(st.sampled_from(pool)))
    if choice == 2:
        metas = ["Type", "Method", "RegionName", "AgentID", "Synthetic", "Dropped", "Reliable", "Zerocoded", "Resent", "Acks", "Extra",
                 "SelectedLocal", "AgentLocal", "Status", "Url", "Host", "SessionID", "NoSuchMeta"]
        m = draw(st.sampled_from(metas))
        if draw(st.integers(0, 5)) == 0:
            # three-part Meta selectors look a key up inside a meta value that is a mapping; on any other value they are simply false
            sub = draw(st.sampled_from(["foo", "x", "Accept", "Host"]))
            if draw(st.booleans()):
                return ("bare", "Meta.%s.%s" % (m, sub))
            t, v = _lit(draw(RANDOM_LIT))
            return ("cmp", ("Meta", m, sub), draw(st.sampled_from(OPS)), t, v)
        if draw(st.booleans()):
            return ("bare", "Meta." + m)
        op = draw(st.sampled_from(OPS))
        vals = {"Type": ["LLUDP", "EQ", "HTTP"], "Method": ["OUT", "IN", "GET", "POST"], "RegionName": ["Testville", "Test"], "Status": [200, 404],
                "Host": ["caps.example.com"], "Url": ["http://caps"]}
        v = draw(st.sampled_from(vals[m])) if m in vals and draw(st.booleans()) else draw(RANDOM_LIT)
        t, v = _lit(v)
        return ("cmp", ("Meta", m), op, t, v)
    if choice == 3 and kind in ("LLUDP", "frozen", "frozen_unparsed"):
        # enum / Meta right-hand sides
        rhs = draw(st.sampled_from([("enum", "ChatType", "NORMAL"), ("enum", "PCode", "AVATAR"), ("meta", "AgentID"), ("meta", "AgentLocal"), ("meta", "Type")]))
        sel = _pick_selector(draw, name, blocks)
        if rhs == ("meta", "AgentID") and draw(st.booleans()):
            sel = (sel[0], "*", draw(st.sampled_from(["AgentID", "*ID", "SessionID"])))      # "is this about me?"
        op = draw(st.sampled_from(["==", "!=", "<", "&", "^=", "==", "!="]))
        text = "%s.%s" % (rhs[1], rhs[2]) if rhs[0] == "enum" else "Meta.%s" % rhs[1]
        return ("cmp", sel, op, text, rhs)
    if choice == 4 and kind in ("LLUDP", "frozen", "frozen_unparsed"):
        sub = draw(st.sampled_from([("ObjectUpdate", "ObjectData", "TextureEntry", "Color"), ("ObjectUpdate", "ObjectData", "ObjectData", "Position"),
                                    (name if name.isalnum() else "*", "*", "*", "*"), ("ImprovedTerseObjectUpdate", "ObjectData", "Data", "*")]))
        if draw(st.booleans()):
            return ("bare", ".".join(sub))
        t, v = _lit(draw(RANDOM_LIT))
        return ("cmp", sub, draw(st.sampled_from(OPS)), t, v)
    # field comparison
    sel = _pick_selector(draw, name, blocks)
    if draw(st.integers(0, 4)) == 0:
        return ("bare", ".".join(sel))
    op = draw(st.sampled_from(OPS))
    actual = _actual_values(edesc, sel)
    cands = [a for a in actual if lit_text(a) is not None]
    if cands and draw(st.booleans()):
        v = draw(st.sampled_from(cands))
        if isinstance(v, (str, bytes)) and len(v) > 2 and op in ("^=", "$=", "~=") and draw(st.booleans()):
            v = v[:2] if op == "^=" else (v[-2:] if op == "$=" else v[1:3])
    else:
        v = draw(RANDOM_LIT)
    t, v = _lit(v)
    return ("cmp", sel, op, t, v)


def _pick_selector(draw, name, blocks):
    nm = name if name.replace("_", "").isalnum() else "*"
    if blocks and draw(st.integers(0, 5)) > 0:
        bname, insts = draw(st.sampled_from(blocks))
        vars_ = sorted({k for d in insts for k in d}) or ["ID"]
        var = draw(st.sampled_from(vars_))
        # (the first component names the message - or the kind of entry, like a bare selector does)
        return (draw(st.sampled_from([nm, "*", nm, "LLUDP", "LL*"])), draw(st.sampled_from([bname, "*", bname])), draw(st.sampled_from([var, var, "*"])))
    return (draw(st.sampled_from([nm, "*", "ChatFromViewer"])), draw(st.sampled_from(["*", "AgentData", "ChatData"])),
            draw(st.sampled_from(["*", "AgentID", "Message", "Channel", "ID"])))


def _actual_values(edesc, sel):
    """decoded values of the fields selected by a 3-part selector (from the real entry)"""
    try:
        e = make_entry(edesc)
        msg = e.message
    except Exception:
        return []
    out = []
    for bn, blist in msg.blocks.items():
        if not fnmatch.fnmatchcase(bn, sel[1]):
            continue
        for b in blist:
            for k, v in b.vars.items():
                if fnmatch.fnmatchcase(k, sel[2]):
                    out.append(v)
    return out[:6]


def leaf_text(leaf):
    if leaf[0] == "bare":
        return leaf[1]
    return "%s %s %s" % (".".join(leaf[1]), leaf[2], leaf[3])


@st.composite
def expr_for(draw, edesc, depth=3):
    if depth == 0 or draw(st.integers(0, 3)) == 0:
        return ("leaf", draw(leaf_for(edesc)))
    k = draw(st.sampled_from(["not", "and", "or", "and", "or"]))
    if k == "not":
        return ("not", draw(expr_for(edesc, depth - 1)))
    return (k, draw(expr_for(edesc, depth - 1)), draw(expr_for(edesc, depth - 1)))


def render(e):
    if e[0] == "leaf":
        return leaf_text(e[1])
    if e[0] == "not":
        return "!(%s)" % render(e[1])
    return "(%s) %s (%s)" % (render(e[1]), "&&" if e[0] == "and" else "||", render(e[2]))


def leaves_of(e, acc=None):
    acc = [] if acc is None else acc
    if e[0] == "leaf":
        acc.append(e[1])
    else:
        for c in e[1:]:
            leaves_of(c, acc)
    return acc


# ---- independent evaluator for 3-part field comparisons on LLUDP entries -----------------------------------------
def _ref_cmp(op, val, expected):
    if not isinstance(val, (int, float, bytes, str, type(None), tuple, TupleCoord)):
        val = str(val)
    try:
        if op == "==":
            return bool(val == expected)
        if op == "!=":
            return bool(val != expected)
        if val is None and op in ("^=", "$=", "~="):
            return False
        if op == "^=":
            return bool(val.startswith(expected))
        if op == "$=":
            return bool(val.endswith(expected))
        if op == "~=":
            return bool(expected in val)
        if op == "<":
            return bool(val < expected)
        if op == "<=":
            return bool(val <= expected)
        if op == ">":
            return bool(val > expected)
        if op == ">=":
            return bool(val >= expected)
        if op == "&":
            return bool(val & expected)
    except (TypeError, AttributeError, ValueError):
        return False      # a comparison that cannot be applied to this field's type is simply false for it
    return False


def _ref_sub_truth(entry, leaf):
    """4-part selector: true iff SOME member of the decoded sub-structure whose name matches satisfies the comparison (or merely
    exists, for a bare selector)"""
    sel = leaf[1] if leaf[0] == "cmp" else tuple(leaf[1].split("."))
    if not (fnmatch.fnmatchcase(entry.name, sel[0]) or fnmatch.fnmatchcase("LLUDP", sel[0])):
        return False
    for bn, blist in entry.message.blocks.items():
        if not fnmatch.fnmatchcase(bn, sel[1]):
            continue
        for b in blist:
            for k in b.vars:
                if not fnmatch.fnmatchcase(k, sel[2]):
                    continue
                try:
                    d = b.deserialize_var(k)
                except Exception:
                    continue
                if isinstance(d, TaggedUnion):
                    d = d.value
                if not isinstance(d, dict):
                    continue
                for sk, sv in d.items():
                    if fnmatch.fnmatchcase(str(sk), sel[3]) and (leaf[0] == "bare" or _ref_cmp(leaf[2], sv, leaf[4])):
                        return True
    return False


def ref_leaf_truth(entry, leaf):
    """truth of a 3-part field comparison with a literal RHS, or None if this evaluator does not cover the leaf"""
    if entry.type == "LLUDP" and entry.name == "ObjectUpdate" and (
            (leaf[0] == "cmp" and len(leaf[1]) == 4 and leaf[1][0] != "Meta") or (leaf[0] == "bare" and leaf[1].count(".") == 3 and not leaf[1].startswith("Meta"))):
        if leaf[0] == "cmp" and isinstance(leaf[4], tuple) and leaf[4] and leaf[4][0] in ("enum", "meta"):
            return None
        return _ref_sub_truth(entry, leaf)
    meta_rhs = None
    if leaf[0] == "cmp" and len(leaf[1]) == 3 and leaf[1][0] != "Meta" and isinstance(leaf[4], tuple) and leaf[4] and leaf[4][0] == "meta" \
            and leaf[4][1] in ("AgentID", "Type") and entry.type == "LLUDP":
        # a Meta specifier on the right-hand side stands for that meta value of the entry (identifiers in their text form, like the field)
        meta_rhs = str(entry.agent_id) if leaf[4][1] == "AgentID" else entry.type
        if leaf[4][1] == "AgentID" and entry.agent_id is None:
            return None
    elif leaf[0] != "cmp" or len(leaf[1]) != 3 or leaf[1][0] == "Meta" or (isinstance(leaf[4], tuple) and leaf[4] and leaf[4][0] in ("enum", "meta")):
        return None
    if entry.type != "LLUDP":
        return None
    sel, op, expected = leaf[1], leaf[2], (meta_rhs if meta_rhs is not None else leaf[4])
    if not (fnmatch.fnmatchcase(entry.name, sel[0]) or fnmatch.fnmatchcase("LLUDP", sel[0])):
        return False
    msg = entry.message
    for bn, blist in msg.blocks.items():
        if not fnmatch.fnmatchcase(bn, sel[1]):
            continue
        for b in blist:
            for k, v in b.vars.items():
                if fnmatch.fnmatchcase(k, sel[2]) and _ref_cmp(op, v, expected):
                    return True
    return False


def fold(e, truths):
    if e[0] == "leaf":
        return truths[leaf_text(e[1])]
    if e[0] == "not":
        return not fold(e[1], truths)
    if e[0] == "and":
        return fold(e[1], truths) and fold(e[2], truths)
    return fold(e[1], truths) or fold(e[2], truths)


def filter_laws(ctx, case):
    edesc, expr = case["entry"], case["expr"]
    try:
        entry = make_entry(edesc)
    except Exception as e:
        return [("harness:entry:%s" % type(e).__name__, repr(e))]
    out = []
    truths = {}
    for leaf in leaves_of(expr):
        text = leaf_text(leaf)
        if text in truths:
            continue
        per_sc = []
        for sc in (True, False):
            try:
                node = compile_filter(text)
            except Exception as e:
                return [("compile-raises:%s" % type(e).__name__, "filter %r does not compile: %r" % (text, e))]
            try:
                per_sc.append(bool(node.match(entry, short_circuit=sc)))
            except Exception as e:
                kind = "cmp:%s" % leaf[2] if leaf[0] == "cmp" else "bare"
                out.append(("leaf-raises:%s:%s" % (kind, type(e).__name__), "filter %r on a %s entry (%s) raised %r" % (text, entry.type, entry.name, e)))
                per_sc.append(None)
        if None in per_sc:
            return out
        if per_sc[0] != per_sc[1]:
            out.append(("leaf-short-circuit-differs", "leaf %r is %s with short-circuit and %s without" % (text, per_sc[0], per_sc[1])))
        truths[text] = per_sc[0]
        ref = ref_leaf_truth(entry, leaf)
        if ref is not None:
            if ctx is not None:
                ctx.count("leaf_ref_checked")
            if ref != per_sc[0]:
                out.append(("leaf-truth:%s" % (leaf[2] if leaf[0] == "cmp" else "bare"), "leaf %r on %s: filter says %s, independent evaluation says %s" % (text, entry.name, per_sc[0], ref)))
        if leaf[0] == "cmp" and leaf[2] not in ("==", "!=") and ctx is not None:
            ctx.count("leaf_errors_possible")
    if out:
        return out
    want = fold(expr, truths)
    text = render(expr)
    for sc in (True, False):
        try:
            got = bool(compile_filter(text).match(entry, short_circuit=sc))
        except Exception as e:
            out.append(("expr-raises:%s" % type(e).__name__, "%r raised %r" % (text, e)))
            continue
        if got != want:
            out.append(("expr-truth:%s" % ("short-circuit" if sc else "full"), "%r on %s/%s: got %s, the boolean combination of its leaves (%r) is %s" % (
                text, entry.type, entry.name, got, truths, want)))
    if ctx is not None:
        ctx.count("truth:true" if want else "truth:false")
    return out


@st.composite
def filter_case(draw):
    edesc = draw(ENTRY)
    return {"entry": edesc, "expr": draw(expr_for(edesc, 3))}


# ---- part B: logger histories -------------------------------------------------------------------------------------
FILTER_POOL = ["", "*", "!*", "LLUDP", "EQ", "HTTP", "!EQ", "Meta.Method == 'OUT'", "LLUDP && Meta.Method == 'IN'", "Object* || EQ",
               "*.*.* > 5", "*.AgentData.AgentID", "Meta.Status == 200", "*.*.* ^= 'a'", "!(LLUDP) || Meta.Reliable"]
SMALL_NAMES = ["ChatFromViewer", "ObjectUpdate", "AgentUpdate", "PacketAck", "ChatFromSimulator", "ObjectSelect"]
HIST_ENTRY = st.one_of(
    st.fixed_dictionaries({"kind": st.just("LLUDP"), "out": st.booleans(),
                           "case": gt.message_case(names=SMALL_NAMES, finite=True, with_header=True, omit_trailing=False, allow_str=False).map(
                               lambda c: dict(c, extra=b"", acks=[]))}),
    st.fixed_dictionaries({"kind": st.just("EQ"), "name": st.sampled_from(["EnableSimulator", "FooEvent"]), "body": st.just({"a": 1})}),
    st.fixed_dictionaries({"kind": st.just("HTTP"), "method": st.sampled_from(["GET", "POST"]), "path": st.just("/x"),
                           "status": st.sampled_from([200, 404]), "cap": st.sampled_from([None, "Seed"])}),
)
HIST_OP = st.one_of(
    st.tuples(st.just("log"), HIST_ENTRY), st.tuples(st.just("log"), HIST_ENTRY), st.tuples(st.just("log"), HIST_ENTRY),
    st.tuples(st.just("burst"), st.lists(HIST_ENTRY, min_size=4, max_size=9)),
    st.tuples(st.just("filter"), st.sampled_from(FILTER_POOL), st.integers(0, 1)),
    st.tuples(st.just("pause"), st.integers(0, 1)), st.tuples(st.just("resume"), st.integers(0, 1)), st.tuples(st.just("clear"), st.integers(0, 1)),
)
_EQ_ENTRY = {"kind": "EQ", "name": "FooEvent", "body": {"a": 1}}
# starting sequences that take several specific steps: the retention window must still be in force after a clear(), also for
# entries the current filter hides
HIST_PROLOGUES = [
    [], [], [], [],
    [("filter", "HTTP", 0), ("clear", 0), ("burst", [_EQ_ENTRY] * 11), ("filter", "EQ", 0)],
    [("log", _EQ_ENTRY), ("clear", 0), ("clear", 1), ("filter", "!*", 1), ("burst", [_EQ_ENTRY] * 10), ("filter", "*", 1)],
]
HISTORY = st.fixed_dictionaries({"maxlen": st.integers(3, 8), "wrap": st.booleans(), "prologue": st.sampled_from(HIST_PROLOGUES),
                                 "ops": st.lists(HIST_OP, min_size=3, max_size=30)}).map(
    lambda h: {"maxlen": h["maxlen"], "wrap": h["wrap"], "ops": list(h["prologue"]) + list(h["ops"])})


class LogModel:
    def __init__(self, maxlen):
        self.maxlen = maxlen
        self.raw = []
        self.view = []
        self.paused = False
        self.pred = lambda e: True

    def add(self, e):
        if self.paused:
            return
        self.raw.append(e)
        if len(self.raw) > self.maxlen:
            self.raw.pop(0)
        if self.pred(e):
            self.view.append(e)

    def set_filter(self, pred):
        self.pred = pred
        aged = [e for e in self.view if not any(e is r for r in self.raw) and pred(e)]
        self.view = aged + [e for e in self.raw if pred(e)]

    def clear(self):
        self.raw, self.view = [], []


def _pred(filter_str):
    node = compile_filter(filter_str)
    return lambda e: bool(node.match(e))


def history_laws(ctx, hist):
    n = 2 if hist["wrap"] else 1
    loggers = [FilteringMessageLogger(maxlen=hist["maxlen"]) for _ in range(n)]
    models = [LogModel(hist["maxlen"]) for _ in range(n)]
    front = loggers[0]
    if hist["wrap"]:
        front = WrappingMessageLogger()
        front.loggers = loggers
    w = world()
    sess = w.viewers[0]["session"]
    region = sess.regions[0]
    out = []
    overflowed = refiltered_after_overflow = False

    def log(edesc):
        nonlocal overflowed
        kind = edesc["kind"]
        if kind == "LLUDP":
            msg = DESER.deserialize(ref_datagram(edesc["case"]))
            msg.direction = Direction.OUT if edesc["out"] else Direction.IN
            seen = _spy(loggers)
            front.log_lludp_message(sess, region, msg)
        elif kind == "EQ":
            seen = _spy(loggers)
            front.log_eq_event(sess, region, {"message": edesc["name"], "body": edesc["body"]})
        else:
            e = make_entry(edesc)
            seen = _spy(loggers)
            front.log_http_response(e.flow)
        new = _unspy(loggers, seen)
        all_paused = all(m.paused for m in models)
        for i, m in enumerate(models):
            entry = new[i]
            if m.paused or (hist["wrap"] and all_paused):
                if entry is not None:
                    out.append(("view:paused-logger-retained", "logger %d is paused but retained a new entry" % i))
                continue
            if entry is None:
                out.append(("view:entry-not-retained", "logger %d is not paused but did not retain the entry" % i))
                continue
            m.add(entry)
            if len(m.raw) == m.maxlen:
                overflowed = True

    for op in hist["ops"]:
        k = op[0]
        try:
            if k == "log":
                log(op[1])
            elif k == "burst":
                for e in op[1]:
                    log(e)
            elif k == "filter":
                i = op[2] % n
                loggers[i].set_filter(op[1])
                models[i].set_filter(_pred(op[1]))
                if overflowed:
                    refiltered_after_overflow = True
            elif k == "pause":
                loggers[op[1] % n].set_paused(True)
                models[op[1] % n].paused = True
            elif k == "resume":
                loggers[op[1] % n].set_paused(False)
                models[op[1] % n].paused = False
            elif k == "clear":
                loggers[op[1] % n].clear()
                models[op[1] % n].clear()
        except Exception as e:
            out.append(("history:%s-raises:%s" % (k, type(e).__name__), "%s raised %r" % (k, e)))
            break
        for i, (lg, m) in enumerate(zip(loggers, models)):
            got = list(lg)
            if len(got) != len(m.view) or any(a is not b for a, b in zip(got, m.view)):
                dup = len(set(map(id, got))) != len(got)
                out.append(("view:%s" % ("duplicates" if dup else "differs"), "after %r logger %d shows %d entries, model %d (ring %d)" % (
                    op[:2] if k != "burst" else k, i, len(got), len(m.view), len(m.raw))))
        if out:
            break
    if ctx is not None:
        ctx.count("histories")
        if refiltered_after_overflow:
            ctx.count("h_overflow_refilter")
        if hist["wrap"]:
            ctx.count("h_wrapped")
    return out, refiltered_after_overflow


def _spy(loggers):
    return [len(lg._raw_entries) and lg._raw_entries[-1] for lg in loggers], [len(lg._raw_entries) for lg in loggers]


def _unspy(loggers, seen):
    """the entry object each logger newly retained (None if it retained nothing)"""
    lasts, lens = seen
    out = []
    for lg, last, ln in zip(loggers, lasts, lens):
        cur = lg._raw_entries[-1] if len(lg._raw_entries) else None
        out.append(cur if (cur is not None and (cur is not last or len(lg._raw_entries) != ln) and cur is not last) else None)
    return out


# ---- part C: persistence ---------------------------------------------------------------------------------------
def _norm_seq(o):
    if isinstance(o, TupleCoord):
        return [_norm_seq(x) for x in o.data()]
    if isinstance(o, (list, tuple)):
        return [_norm_seq(x) for x in o]
    if isinstance(o, dict):
        return {k: _norm_seq(v) for k, v in o.items()}
    if isinstance(o, bytes):
        return bytes(o)
    if isinstance(o, float) and o != o:
        return "nan"
    return o


def persist_laws(ctx, edesc):
    out = []
    try:
        e = make_entry(dict(edesc, kind="LLUDP") if edesc["kind"] == "frozen" else edesc)
    except Exception as ex:
        return [("harness:entry:%s" % type(ex).__name__, repr(ex))]
    if ctx is not None:
        ctx.count("persist")
    if edesc["kind"] == "frozen_unparsed":
        if ctx is not None:
            ctx.count("frozen_unparsed")
        twin = DESER.deserialize(ref_datagram(edesc["case"]))
        twin.direction = Direction.OUT if edesc.get("out", True) else Direction.IN
        before = _norm_seq(twin.to_dict(extended=True))
        dg = bytes(SER.serialize(twin))
        try:
            text = e.request(beautify=False)
            thawed = e.message
            if _norm_seq(thawed.to_dict(extended=True)) != before or bytes(SER.serialize(thawed)) != dg:
                out.append(("freeze-thaw:unparsed-message-differs", "%s: a message frozen before anyone parsed it thaws to a different message" % e.name))
            if not text.startswith(("OUT ", "IN ")):
                out.append(("freeze-thaw:unparsed-request-text", "%s: request text %r" % (e.name, text[:40])))
        except Exception as ex:
            out.append(("freeze-thaw:unparsed-raises:%s" % type(ex).__name__, "%s frozen before its body was parsed: %r" % (e.name, ex)))
    elif edesc["kind"] == "synthetic":
        if ctx is not None:
            ctx.count("synthetic_entries")
        before = _norm_seq(e.message.to_dict(extended=True))
        dg = None
    elif e.type == "LLUDP":
        before = _norm_seq(e.message.to_dict(extended=True))
        dg = bytes(SER.serialize(e.message))
        # freeze / thaw
        e.cache_summary()
        e.freeze()
        try:
            thawed = e.message
            if _norm_seq(thawed.to_dict(extended=True)) != before or bytes(SER.serialize(thawed)) != dg:
                out.append(("freeze-thaw:message-differs", "%s: the thawed message differs from the logged one" % e.name))
        except Exception as ex:
            out.append(("freeze-thaw:raises:%s" % type(ex).__name__, "%s: %r" % (e.name, ex)))
    try:
        back = import_log_entries(export_log_entries([e]))
    except Exception as ex:
        return out + [("export-import:raises:%s:%s" % (e.type, type(ex).__name__), "%s %s: export/import raised %r" % (e.type, e.name, ex))]
    if len(back) != 1 or back[0].type != e.type or back[0].name != e.name:
        return out + [("export-import:identity", "%s %s came back as %r" % (e.type, e.name, [(b.type, b.name) for b in back]))]
    b = back[0]
    if e.type == "LLUDP":
        try:
            after = _norm_seq(b.message.to_dict(extended=True))
            if after != before:
                keys = [k for k in before if after.get(k) != before[k]]
                out.append(("export-import:message-differs:%s" % keys[0], "%s: re-imported message differs in %s" % (e.name, keys)))
            elif dg is not None and bytes(SER.serialize(b.message)) != dg:
                out.append(("export-import:datagram-differs", "%s: re-imported message encodes to a different datagram" % e.name))
        except Exception as ex:
            out.append(("export-import:message-raises:%s" % type(ex).__name__, "%s: %r" % (e.name, ex)))
    elif e.type == "EQ":
        if _norm_seq(b.event) != _norm_seq(e.event):
            out.append(("export-import:event-differs", "EQ event %r came back as %r" % (e.event, b.event)))
    else:
        s1, s2 = e.flow.get_state(), b.flow.get_state()
        for k in ("request", "response"):
            if s1[k] != s2[k]:
                out.append(("export-import:flow-%s-differs" % k, "HTTP %s differs after export/import" % k))
        c1 = e.flow.cap_data.cap_name if e.flow.cap_data else None
        c2 = b.flow.cap_data.cap_name if b.flow.cap_data else None
        if c1 != c2:
            out.append(("export-import:flow-cap", "cap name %r came back as %r" % (c1, c2)))
    m1 = {k: (str(v) if isinstance(v, UUID) else v) for k, v in e.meta.items()}
    m2 = {k: (str(v) if isinstance(v, UUID) else v) for k, v in b.meta.items()}
    if m1 != m2:
        keys = [k for k in m1 if m1[k] != m2.get(k)]
        out.append(("export-import:meta-differs:%s" % (keys[0] if keys else "keys"), "%s %s: entry meta differs: %r" % (e.type, e.name, keys)))
    return out


# ---- shards ------------------------------------------------------------------------------------------------------
def shards(tier):
    th = tier == "thorough"
    sh = [{"kind": "filters", "n": 19000 if th else 600} for _ in range(10)]
    sh += [{"kind": "histories", "n": 4000 if th else 250} for _ in range(4)]
    sh += [{"kind": "persist", "n": 10000 if th else 450} for _ in range(2)]
    return sh


def run_shard(ctx, shard):
    if shard["kind"] == "filters":
        def body(case):
            n_leaves = len(leaves_of(case["expr"]))
            kind = case["entry"]["kind"]
            ctx.case((case["entry"]["kind"], render(case["expr"]), repr(case["entry"])[:300]), nontrivial=n_leaves >= 2,
                     classes=["pairs", "entry:" + kind] + (["entry:LLUDP"] if kind in ("frozen", "frozen_unparsed") else []))
            return filter_laws(ctx, case)
        hyp_run(ctx, filter_case(), body, shard["n"])
    elif shard["kind"] == "histories":
        def body(hist):
            res, nt = history_laws(ctx, hist)
            ctx.case(hist, nontrivial=nt, classes=[])
            return res
        hyp_run(ctx, HISTORY, body, shard["n"])
    else:
        def body(edesc):
            ctx.case(edesc, nontrivial=True, classes=[])
            return persist_laws(ctx, edesc)
        synthetic = st.fixed_dictionaries({"kind": st.just("synthetic"), "out": st.booleans(), "dropped": st.booleans(),
                                           "case": gt.message_case(names=SMALL_NAMES, finite=True, with_header=True, omit_trailing=False, allow_str=False).map(
                                               lambda c: dict(c, extra=b"", acks=c["acks"][:2]))})
        hyp_run(ctx, st.one_of(ENTRY, ENTRY, ENTRY, synthetic), body, shard["n"])


def replay(ctx, case):
    if isinstance(case, dict) and "expr" in case:
        case = dict(case, expr=_tuplify(case["expr"]))
        return filter_laws(None, case)
    if isinstance(case, dict) and "ops" in case:
        case = dict(case, ops=[_tuplify(o) for o in case["ops"]])
        return history_laws(None, case)[0]
    return persist_laws(None, case)


def _tuplify(o):
    if isinstance(o, list):
        return tuple(_tuplify(x) for x in o)
    if isinstance(o, tuple):
        return tuple(_tuplify(x) if isinstance(x, (list, tuple)) else x for x in o)
    return o
