"""C14 - the tracked world stays self-consistent under any object update / kill history.

Histories of ObjectUpdate / ObjectUpdateCompressed / ImprovedTerseObjectUpdate / ObjectUpdateCached (hit, miss, cache-served) /
ObjectProperties(Family) / KillObject / region change / region teardown / object requests are delivered to a real session
(client: HippoClientSession + ClientWorldObjectManager; proxy: Session + ProxyWorldObjectManager + object-tracking addon)
through `session.message_handler` + `region.message_handler`, and compared after every step against a flat-table reference
model of the scene graph that knows nothing of the code's indices."""
import re
import sys
import types

from hypothesis import strategies as st

from hippolyzer.lib.base import serialization as se
from hippolyzer.lib.base import templates as tmpls
from hippolyzer.lib.base.datatypes import UUID, Vector3, Quaternion
from hippolyzer.lib.base.message.message import Block, Message
from hippolyzer.lib.base.message.udpdeserializer import UDPMessageDeserializer
from hippolyzer.lib.base.message.udpserializer import UDPMessageSerializer
from hippolyzer.lib.base.templates import PCode
from hippolyzer.lib.base.test_utils import MockTransport
from hippolyzer.lib.client import object_manager as com
from hippolyzer.lib.client.object_manager import ObjectUpdateType
import hippolyzer.lib.base.events as events_mod

from vlib.proxy_harness import ensure_loop, drain
from vlib.runner import hyp_run

PROPERTY = "C14"
LEVEL = "exploration"
RULE = ("message histories over 2 tracked regions + 1 never-tracked handle, 6 local IDs per region, 6 full IDs (4 prims, 2 "
        "avatars; full, compressed (some spinning), terse and cached announcements, the viewer cache read once per connection), delivered to a real client or proxy session; after every step the code's indices, links, kill events and "
        "request futures are compared with a flat-table reference model. Non-trivial = a kill, re-parent, local-ID change, "
        "region move or teardown happening after at least two announcements")
ASSUMPTIONS = [
    "the generator only produces histories the property quantifies over: an announced local ID is never held by another live "
    "object of that region (conflicting blocks are re-targeted to a free ID or dropped) and a parent link never closes a cycle "
    "(such a link is replaced by 'no parent'); one object is not announced twice in one message",
    "the event loop is stepped after every delivered message / API call (one datagram = one loop callback in the proxy)",
    "an existing object announced for a handle no region manager tracks is kept by full ID only (documented in the code as "
    "mirroring the viewer and pinned by tests/proxy/test_object_manager.py:test_object_moved_to_bad_region); the model mirrors "
    "that as 'limbo' and still requires that no handler raises and that it is dropped on unload",
    "every announcement changes Position, every property reply changes Name, every cached hit changes UpdateFlags, so each one "
    "is a real update and must resolve the pending requests of its kind for that object",
]
EXHAUSTIVE_PARTS = {"quick": ["all histories of depth 4 over a 26-symbol alphabet (3 objects, local IDs 1-4, one region + move "
                              "target + untracked handle), client session, pruned where a symbol would break the assumptions"],
                    "thorough": ["the same alphabet to depth 5"]}
FLOORS = {"quick": {"histories": 300, "announce_new": 2000, "kill_tracked": 500, "kill_cascade": 150, "kill_unknown": 300,
                    "orphan_adopted": 150, "reparent": 150, "relid": 100, "move_region": 100, "teardown": 100,
                    "future_resolved": 150, "future_cancelled": 150, "cache_served": 40, "limbo": 40, "avatar_child_survives": 20}}
MANIFEST = {
    "text": "model-based histories (Hypothesis op lists + bounded exhaustive enumeration) against a reference scene graph",
    "note": "exploration: exhaustive to a depth bound over a small alphabet, random beyond; client and proxy sessions",
    "technique": "model-based property testing: generated object update/kill/teardown/request histories on real sessions, "
                 "step-by-step comparison with an independent flat-table scene-graph model; bounded exhaustive enumeration",
}

NL = 6                      # local IDs 1..NL
FIDS = [UUID(int=0xF00 + i) for i in range(6)]
PCODES = [PCode.PRIMITIVE] * 4 + [PCode.AVATAR] * 2
HANDLES = [(1000 << 32) | 1000, (1000 << 32) | 1001, (999 << 32) | 999]       # index 2 is never registered
ADDRS = [("10.0.0.1", 13000), ("10.0.0.1", 13001)]
T = tmpls.ObjectUpdateCompressedDataSerializer.TEMPLATE
SER = UDPMessageSerializer()
DESER = UDPMessageDeserializer()
UPD, PROPS = "UPDATE", "PROPERTIES"


# --------------------------------------------------------------------------------------------------------------------------
# message construction


def _base_compressed():
    src = open(__import__("os").path.join(__import__("os").environ.get("VERIF_REPO", "/repo"), "tests/proxy/test_object_manager.py")).read()
    m = re.search(r"OBJECT_UPDATE_COMPRESSED_DATA = \((.*?)\n\)", src, re.S)
    data = eval("(" + m.group(1) + ")")
    r = se.BufferReader("<", data)
    v = dict(r.read(T))
    v["TextureEntry"] = None
    v["TextureAnim"] = None
    v["ExtraParams"] = {}
    v["Flags"] = tmpls.CompressedFlags(0)
    v["AngularVelocity"] = None
    return v


_BASE_C = None
_FULL_BYTES = None


def compressed_payload(fid, lid, parent, pcode, crc, n):
    global _BASE_C
    if _BASE_C is None:
        _BASE_C = _base_compressed()
    v = dict(_BASE_C)
    v["ID"] = lid
    v["FullID"] = fid
    v["PCode"] = pcode
    v["CRC"] = crc
    v["Position"] = Vector3(float(n % 250), float(n // 250 % 250), 1.0)
    if parent:
        v["Flags"] = tmpls.CompressedFlags.PARENT_ID
        v["ParentID"] = parent
    if n % 3 == 0:
        # every third announcement is of a spinning object: one more optional section, next to the parent link
        v["Flags"] = v.get("Flags", tmpls.CompressedFlags(0)) | tmpls.CompressedFlags.ANGULAR_VELOCITY
        v["AngularVelocity"] = Vector3(0.0, 0.0, 0.25 + (n % 7))
    w = se.BufferWriter("<")
    w.write(T, v)
    return w.copy_buffer()


def full_block(fid, lid, parent, pcode, crc, n):
    global _FULL_BYTES
    if _FULL_BYTES is None:
        b = Block("ObjectData", ID=1, FullID=UUID(int=1), PCode=PCode.PRIMITIVE, Scale=Vector3(0.5, 0.5, 0.5), UpdateFlags=268568894,
                  PathCurve=16, ParentID=0, ProfileCurve=1, PathScaleX=100, PathScaleY=100, NameValue=None, TextureEntry=b"",
                  TextColor=b"\x00\x00\x00\x00", ExtraParams=b"\x00", fill_missing=True)
        m = Message("ObjectUpdate", Block("RegionData", RegionHandle=1, TimeDilation=1), b)
        b.serialize_var("ObjectData", (60, {"Position": (1.0, 2.0, 3.0), "Velocity": (0.0, 0.0, 0.0), "Acceleration": (0.0, 0.0, 0.0),
                                            "Rotation": (0.0, 0.0, 0.0, 1.0), "AngularVelocity": (0.0, 0.0, 0.0)}))
        _FULL_BYTES = bytes(SER.serialize(m))
    b = DESER.deserialize(_FULL_BYTES)["ObjectData"][0]
    b["ID"] = lid
    b["FullID"] = fid
    b["PCode"] = pcode
    b["ParentID"] = parent
    b["CRC"] = crc
    b.serialize_var("ObjectData", (60, {"Position": (float(n % 250), float(n // 250 % 250), 1.0), "Velocity": (0.0, 0.0, 0.0),
                                        "Acceleration": (0.0, 0.0, 0.0), "Rotation": (0.0, 0.0, 0.0, 1.0),
                                        "AngularVelocity": (0.0, 0.0, 0.0)}))
    return b


def msg_full(handle, blocks):
    return Message("ObjectUpdate", Block("RegionData", RegionHandle=handle, TimeDilation=1), *blocks)


def msg_comp(handle, payloads, n):
    return Message("ObjectUpdateCompressed", Block("RegionData", RegionHandle=handle, TimeDilation=1),
                   *[Block("ObjectData", UpdateFlags=(n * 2 + 1) & 0xFFFF, Data=p) for p in payloads])


def msg_terse(handle, lids, n):
    return Message("ImprovedTerseObjectUpdate", Block("RegionData", RegionHandle=handle, TimeDilation=1),
                   *[Block("ObjectData", Data_={"ID": l, "State": 0, "FootCollisionPlane": None,
                                                "Position": Vector3(float(n % 250), float(n // 250 % 250), 2.0),
                                                "Velocity": Vector3(0, 0, 0), "Acceleration": Vector3(0, 0, 0),
                                                "Rotation": Quaternion(0, 0, 0, 1), "AngularVelocity": Vector3(0, 0, 0)},
                           TextureEntry_=None) for l in lids])


def msg_cached(handle, pairs, n):
    return Message("ObjectUpdateCached", Block("RegionData", RegionHandle=handle, TimeDilation=1),
                   *[Block("ObjectData", ID=l, CRC=c, UpdateFlags=(n * 2 + 1) & 0xFFFF) for l, c in pairs])


def msg_props(family, fids, n):
    if family:
        return Message("ObjectPropertiesFamily", Block("ObjectData", ObjectID=fids[0], Name="fam%d" % n, fill_missing=True))
    return Message("ObjectProperties", *[Block("ObjectData", ObjectID=f, Name="name%d" % n, TextureID=b"", fill_missing=True) for f in fids])


def msg_kill(lids):
    return Message("KillObject", *[Block("ObjectData", ID=l) for l in lids])


# --------------------------------------------------------------------------------------------------------------------------
# worlds


class _Addon:
    def __init__(self):
        self.killed = []
        self.updated = 0

    def handle_object_updated(self, session, region, obj, updated_props, msg):
        self.updated += 1

    def handle_object_killed(self, session, region, obj):
        self.killed.append(obj.FullID)


class World:
    def __init__(self, kind, settings=0):
        ensure_loop()
        self.kind = kind
        self.addon = None
        self.transport = MockTransport()
        if kind == "client":
            from hippolyzer.lib.client.hippo_client import HippoClientSession, ClientSettings
            sm = types.SimpleNamespace(http_session=None, settings=ClientSettings())
            self.session = HippoClientSession(UUID(int=1), UUID(int=2), UUID(int=3), 1234, session_manager=sm)
            self.session.transport = self.transport
            self.regions = []
            for i in range(2):
                r = self.session.register_region(ADDRS[i], "http://127.0.0.1:1/seed%d" % i, HANDLES[i])
                self.session.open_circuit(ADDRS[i])
                self.regions.append(r)
        else:
            from hippolyzer.lib.proxy.addons import AddonManager
            from hippolyzer.lib.proxy.sessions import SessionManager
            from hippolyzer.lib.proxy.settings import ProxySettings
            ps = ProxySettings()
            ps.ALLOW_AUTO_REQUEST_OBJECTS = bool(settings & 1)
            ps.AUTOMATICALLY_REQUEST_MISSING_OBJECTS = bool(settings & 2)
            ps.USE_VIEWER_OBJECT_CACHE = bool(settings & 4)
            self.sm = SessionManager(ps)
            self.addon = _Addon()
            AddonManager.init([], self.sm, addon_objects=[self.addon])
            self.session = self.sm.create_session({
                "session_id": UUID(int=1), "secure_session_id": UUID(int=2), "agent_id": UUID(int=3), "circuit_code": 1234,
                "sim_ip": ADDRS[0][0], "sim_port": ADDRS[0][1], "region_x": 1000, "region_y": 1000,
                "seed_capability": "https://sim.example/seed0"})
            self.session.register_region(ADDRS[1], "https://sim.example/seed1", HANDLES[1])
            self.regions = list(self.session.regions)
            for r in self.regions:
                self.session.open_circuit(("127.0.0.1", 5000), r.circuit_addr, self.transport)
        self.objects = self.session.objects
        self._vocache = {}
        self._cache_read = [False, False, False]
        for h in HANDLES[:2]:
            self.objects.track_region_objects(h)
        self.kills = []
        self.objects.events.subscribe(ObjectUpdateType.KILL, lambda e: self.kills.append(e.object.FullID))

    def deliver(self, msg, r):
        region = self.regions[r]
        msg = DESER.deserialize(bytes(SER.serialize(msg)))      # what the handlers see is always a parsed datagram
        msg.sender = region.circuit_addr
        self.session.message_handler.handle(msg)
        region.message_handler.handle(msg)

    def set_cache(self, r, entries):
        """the viewer's object cache for this region holds these entries now.  The proxy reads it through load_cache() when the
        connection to the region is set up (RegionHandshake) - once per connection, so again after the region was torn down"""
        from hippolyzer.lib.proxy.vocache import RegionViewerObjectCacheChain, RegionViewerObjectCache, ViewerObjectCacheEntry
        reg = self.regions[r]
        cache = RegionViewerObjectCache(UUID(int=9), [ViewerObjectCacheEntry(local_id=l, crc=c, data=d) for (l, c), d in entries.items()])
        chain = self._vocache.setdefault(r, RegionViewerObjectCacheChain([cache]))
        chain.region_caches[:] = [cache]
        if not self._cache_read[r]:
            by_handle = {self.regions[i].handle: ch for i, ch in self._vocache.items()}
            orig = RegionViewerObjectCacheChain.__dict__["for_region"]
            RegionViewerObjectCacheChain.for_region = classmethod(lambda cls, handle, cache_id, cache_dir=None: by_handle.get(handle) or cls([]))
            try:
                reg.objects.load_cache()
            finally:
                RegionViewerObjectCacheChain.for_region = orig
            self._cache_read[r] = True

    def cache_dropped(self, r):
        self._cache_read[r] = False

    def close(self):
        if self.kind == "proxy":
            from hippolyzer.lib.proxy.addons import AddonManager
            for r in self.regions:
                t = getattr(r.objects, "_cache_miss_timer", None)
                if t:
                    t.cancel()
            try:
                AddonManager.shutdown()
            except Exception:
                pass
            AddonManager.FRESH_ADDON_MODULES.clear()


# --------------------------------------------------------------------------------------------------------------------------
# the run: reference model + comparison


class Invalid(Exception):
    """a strict (enumerated) symbol that would break the property's assumptions in the current model state"""


class Run:
    def __init__(self, kind="client", settings=0, strict=False):
        self.world = World(kind, settings)
        self.kind = kind
        self.strict = strict
        self.objs = {}              # fid index -> dict(h, lid, parent, idx (indexed in a region), crc)
        self.tracked = [True, True, False]
        self.futs = []              # dict(h, lid, type, fut, want: None|("res", f)|"cancel")
        self.cache = [{}, {}]
        self.n = 0
        self.counts = {}
        self.trace = []
        self.errors = []
        self.n_ann = 0
        self.nontrivial = False
        self._orig_exc = events_mod.LOG.exception
        self._orig_err = com.LOG.error
        events_mod.LOG.exception = self._on_exception
        com.LOG.error = self._on_error

    # ---- observation of swallowed handler exceptions
    def _on_exception(self, msg, *a, **k):
        et, ev, tb = sys.exc_info()
        where = ""
        while tb is not None:
            fn = tb.tb_frame.f_code.co_filename
            if "hippolyzer" in fn:
                where = "%s:%s" % (fn.rsplit("/", 1)[-1], tb.tb_frame.f_code.co_name)
            tb = tb.tb_next
        self.errors.append(("handler-raised:%s@%s" % (et.__name__ if et else "?", where), "%s: %r" % (msg, ev)))

    def _on_error(self, msg, *a, **k):
        self.errors.append(("error-logged:%s" % str(msg).split(" ")[0], str(msg)[:200]))

    def close(self):
        events_mod.LOG.exception = self._orig_exc
        com.LOG.error = self._orig_err
        self.world.close()

    def count(self, k, v=1):
        self.counts[k] = self.counts.get(k, 0) + v

    # ---- model helpers
    def at(self, h, lid, indexed_only=False):
        for f, o in self.objs.items():
            if o["h"] == h and o["lid"] == lid and (o["idx"] or not indexed_only):
                return f
        return None

    def children(self, h, lid):
        return [f for f, o in self.objs.items() if o["idx"] and o["h"] == h and o["parent"] == lid]

    def closes_cycle(self, h, lid, parent):
        seen = set()
        p = parent
        while p:
            if p == lid:
                return True
            if p in seen:
                return True
            seen.add(p)
            f = self.at(h, p)
            if f is None:
                return False
            p = self.objs[f]["parent"]
        return False

    def free_lid(self, h, prefer):
        for k in range(NL):
            l = (prefer - 1 + k) % NL + 1
            if self.at(h, l) is None:
                return l
        return None

    def cancel(self, h, lid):
        for fu in self.futs:
            if fu["want"] is None and fu["h"] == h and fu["lid"] == lid:
                fu["want"] = "cancel"
                self.count("future_cancelled")

    def resolve(self, h, lid, typ, f):
        for fu in self.futs:
            if fu["want"] is None and fu["h"] == h and fu["lid"] == lid and fu["type"] == typ:
                fu["want"] = ("res", f)
                self.count("future_resolved")

    def resolve_block(self, h, f, lid, parent):
        """make one announced (f, lid, parent) sound w.r.t. the assumptions, or raise Invalid / return None"""
        holder = self.at(h, lid)
        if holder is not None and holder != f:
            if self.strict:
                raise Invalid()
            cur = self.objs.get(f)
            if cur is not None and cur["h"] == h:
                lid = cur["lid"]
            else:
                lid = self.free_lid(h, lid)
                if lid is None:
                    return None
        if parent == lid or self.closes_cycle(h, lid, parent):
            if self.strict:
                raise Invalid()
            parent = 0
        return f, lid, parent

    def model_announce(self, hi, f, lid, parent, crc):
        h = HANDLES[hi]
        cur = self.objs.get(f)
        tracked = self.tracked[hi]
        if cur is None:
            if not tracked:
                self.count("announce_untracked_ignored")
                return
            self.objs[f] = {"h": h, "lid": lid, "parent": parent, "idx": True, "crc": crc}
            self.count("announce_new")
            if parent and self.at(h, parent, True) is None:
                self.count("orphan_created")
            if self.children(h, lid):
                self.count("orphan_adopted")
            self.n_ann += 1
            self.resolve(h, lid, UPD, f)
            return
        self.n_ann += 1
        moved = cur["h"] != h
        relid = (not moved) and cur["lid"] != lid
        if moved or relid:
            if cur["idx"]:
                self.cancel(cur["h"], cur["lid"])
            self.count("move_region" if moved else "relid")
            if self.n_ann > 2:
                self.nontrivial = True
        if cur["parent"] != parent and not moved:
            self.count("reparent")
            if self.n_ann > 2:
                self.nontrivial = True
        cur["idx"] = tracked
        cur.update(h=h, lid=lid, parent=parent, crc=crc)
        if not tracked:
            self.count("limbo")
        else:
            if cur["idx"] and self.children(h, lid) and (moved or relid):
                self.count("orphan_adopted")
            self.resolve(h, lid, UPD, f)
        self.count("announce_update")

    def model_kill(self, h, lid, killed, depth=0):
        f = self.at(h, lid, True)
        kids = self.children(h, lid)
        if f is not None:
            killed.append(f)
            self.count("kill_tracked" if depth == 0 else "kill_cascade")
            if self.n_ann >= 2:
                self.nontrivial = True
        elif depth == 0:
            self.count("kill_unknown")
            if kids:
                self.count("kill_unknown_with_orphans")
        for c in kids:
            if PCODES[c] == PCode.AVATAR:
                self.count("avatar_child_survives")
                continue
            self.model_kill(h, self.objs[c]["lid"], killed, depth + 1)
        if f is not None:
            del self.objs[f]
        self.cancel(h, lid)

    def model_unload(self, hi):
        h = HANDLES[hi]
        n = 0
        for f in [f for f, o in self.objs.items() if o["h"] == h]:
            del self.objs[f]
            n += 1
        for fu in self.futs:
            if fu["want"] is None and fu["h"] == h:
                fu["want"] = "cancel"
                self.count("future_cancelled")
        self.tracked[hi] = False
        self.count("teardown")
        if n and self.n_ann >= 2:
            self.nontrivial = True

    # ---- one step
    def step(self, op):
        self.n += 1
        n = self.n
        w = self.world
        kills_before = len(w.kills)
        addon_kills_before = len(w.addon.killed) if w.addon else 0
        want_killed = []
        self.errors = []
        kind = op[0]
        if kind == "ann":
            _, mk, hi, blocks = op
            deliver_via = hi if hi < 2 else 0
            sound = []
            seen_f = set()
            for f, lid, parent in blocks:
                if f in seen_f:
                    if self.strict:
                        raise Invalid()
                    continue
                rb = self.resolve_block(HANDLES[hi], f, lid, parent)
                if rb is None:
                    continue
                seen_f.add(f)
                crc = (n * 7 + f) & 0xFFFF
                sound.append(rb + (crc,))
                self.model_announce(hi, rb[0], rb[1], rb[2], crc)
            if not sound:
                self.trace.append(("noop",))
                return []
            self.trace.append(("ann", mk, hi, sound))
            if mk == "full":
                m = msg_full(HANDLES[hi], [full_block(FIDS[f], l, p, PCODES[f], c, n) for f, l, p, c in sound])
            else:
                m = msg_comp(HANDLES[hi], [compressed_payload(FIDS[f], l, p, PCODES[f], c, n) for f, l, p, c in sound], n)
            w.deliver(m, deliver_via)
        elif kind == "terse":
            _, hi, lids = op
            self.trace.append(op)
            if self.tracked[hi]:
                for l in lids:
                    f = self.at(HANDLES[hi], l, True)
                    if f is not None:
                        self.resolve(HANDLES[hi], l, UPD, f)
                        self.count("terse_known")
                    else:
                        self.count("terse_unknown")
            w.deliver(msg_terse(HANDLES[hi], lids, n), hi if hi < 2 else 0)
        elif kind == "cached":
            _, hi, sels = op
            pairs = []
            for l, hit in sels:
                f = self.at(HANDLES[hi], l, True) if self.tracked[hi] else None
                if f is not None and hit:
                    pairs.append((l, self.objs[f]["crc"]))
                    self.resolve(HANDLES[hi], l, UPD, f)
                    self.count("cached_hit")
                else:
                    pairs.append((l, 0x10000 + n))
                    self.count("cached_miss")
            self.trace.append(("cached", hi, pairs))
            w.deliver(msg_cached(HANDLES[hi], pairs, n), hi if hi < 2 else 0)
        elif kind == "cserve":
            _, hi, f, lid, parent = op
            if hi > 1:
                raise Invalid()
            h = HANDLES[hi]
            rb = self.resolve_block(h, f, lid, parent)
            if rb is None:
                self.trace.append(("noop",))
                return []
            f, lid, parent = rb
            crc = 0x20000 + n
            served = self.kind == "proxy" and self.tracked[hi]
            self.trace.append(("cserve", hi, f, lid, parent, crc, served))
            if self.kind == "proxy":
                self.cache[hi][(lid, crc)] = compressed_payload(FIDS[f], lid, parent, PCODES[f], crc, n)
                w.set_cache(hi, self.cache[hi])
            if served:
                self.model_announce(hi, f, lid, parent, crc)
                self.count("cache_served")
            w.deliver(msg_cached(h, [(lid, crc)], n), hi)
        elif kind == "props":
            _, family, fs = op
            self.trace.append(op)
            for f in (fs[:1] if family else fs):
                o = self.objs.get(f)
                if o is not None and not o["idx"] and o["h"] in HANDLES[:2] and self.tracked[HANDLES.index(o["h"])]:
                    # kept by full ID only, but its region is tracked by now: any update for it files it there
                    o["idx"] = True
                    self.count("limbo_picked_up")
                if o is not None and o["idx"]:
                    self.resolve(o["h"], o["lid"], PROPS, f)
                    self.count("props_known")
            w.deliver(msg_props(family, [FIDS[f] for f in fs], n), 0)
        elif kind == "kill":
            _, hi, lids = op
            self.trace.append(op)
            for l in lids:
                self.model_kill(HANDLES[hi], l, want_killed)
            w.deliver(msg_kill(lids), hi)
        elif kind == "clear":
            _, hi, how = op
            self.trace.append(op)
            self.model_unload(hi)
            if how == "mark_dead":
                w.regions[hi].mark_dead()
                w.regions[hi].circuit.is_alive = True
            else:
                w.regions[hi].objects.clear()
            if self.kind == "proxy":
                w.cache_dropped(hi)
        elif kind == "track":
            _, hi = op
            self.trace.append(op)
            self.tracked[hi] = True
            w.objects.track_region_objects(HANDLES[hi])
        elif kind == "sclear":
            # session teardown = teardown of every region it tracks (+ anything kept by full ID only); requests made on
            # a region that was already torn down are not the session's to cancel
            self.trace.append(op)
            for hi in range(3):
                if self.tracked[hi]:
                    self.model_unload(hi)
            self.objs.clear()
            w.objects.clear()
        elif kind == "req":
            _, hi, what, lids = op
            self.trace.append(op)
            mgr = w.regions[hi].objects
            h = HANDLES[hi]
            if what == "obj":
                futs = mgr.request_objects(tuple(lids))
                for l, fu in zip(lids, futs):
                    self.futs.append({"h": h, "lid": l, "type": UPD, "fut": fu, "want": None})
            elif what == "props":
                futs = mgr.request_object_properties(tuple(lids))
                for l, fu in zip(lids, futs):
                    self.futs.append({"h": h, "lid": l, "type": PROPS, "fut": fu, "want": None})
            else:
                missing = sorted(mgr.missing_locals)
                futs = mgr.request_missing_objects()
                if len(futs) != len(missing):
                    return [("request_missing:count", "request_missing_objects returned %d futures for %d missing" % (len(futs), len(missing)))]
                for l, fu in zip(missing, futs):     # order of a set: recover the local id from the registry instead
                    self.futs.append({"h": h, "lid": None, "type": UPD, "fut": fu, "want": None})
                self._bind_unknown_futures(mgr)
            self.count("requests", len(lids) or 1)
        else:
            raise ValueError(op)
        drain()
        got_killed = w.kills[kills_before:]
        addon_killed = w.addon.killed[addon_kills_before:] if w.addon else None
        return self.check(want_killed, got_killed, addon_killed)

    def _bind_unknown_futures(self, mgr):
        """request_missing_objects() returns futures in set order; find which local id each belongs to"""
        for (lid, typ), futs in mgr.state._object_futures.items():
            for fu in self.futs:
                if fu["lid"] is None and any(fu["fut"] is x for x in futs):
                    fu["lid"] = lid

    # ---- comparison
    def check(self, want_killed, got_killed, addon_killed):
        out = list(self.errors)
        w = self.world
        ctx = " after %r" % (self.trace[-1],)
        wantk = sorted(FIDS[f].int for f in want_killed)
        if sorted(x.int for x in got_killed) != wantk:
            out.append(("kill-events", "kill events for %r, expected %r%s" % (sorted(hex(x.int) for x in got_killed), [hex(x) for x in wantk], ctx)))
        if addon_killed is not None and sorted(x.int for x in addon_killed) != wantk:
            out.append(("kill-events:addon", "addon kill hooks for %r, expected %r%s" % (sorted(hex(x.int) for x in addon_killed), [hex(x) for x in wantk], ctx)))
        # world index
        want_world = {FIDS[f] for f in self.objs}
        got_world = {o.FullID for o in w.objects.all_objects}
        if got_world != want_world:
            extra = sorted(hex(x.int) for x in got_world - want_world)
            miss = sorted(hex(x.int) for x in want_world - got_world)
            out.append(("world-index:%s" % ("extra" if extra else "missing"), "full-ID index has extra %r, lacks %r%s" % (extra, miss, ctx)))
        if len(w.objects) != len(got_world):
            out.append(("world-index:len", "len() %d != %d objects%s" % (len(w.objects), len(got_world), ctx)))
        for i, fid in enumerate(FIDS):
            o = w.objects.lookup_fullid(fid)
            if (o is not None) != (i in self.objs):
                out.append(("world-index:lookup_fullid", "lookup_fullid(%x) -> %r, model has it: %r%s" % (fid.int, o, i in self.objs, ctx)))
        # per region
        for hi in range(2):
            h = HANDLES[hi]
            mgr = w.regions[hi].objects
            want = {o["lid"]: f for f, o in self.objs.items() if o["h"] == h and o["idx"]}
            got = {}
            for lid in range(1, NL + 2):
                o = mgr.lookup_localid(lid)
                if o is not None:
                    got[lid] = o
            listed = list(mgr.all_objects)
            if len(listed) != len(got) or len(mgr) != len(got) or any(o.LocalID not in got or got[o.LocalID] is not o for o in listed):
                out.append(("region-index:listing", "region %d all_objects/len disagree with lookup_localid over 1..%d%s" % (hi, NL + 1, ctx)))
            if {l: o.FullID for l, o in got.items()} != {l: FIDS[f] for l, f in want.items()}:
                out.append(("region-index:content", "region %d local-ID index %r, expected %r%s" % (
                    hi, {l: hex(o.FullID.int) for l, o in got.items()}, {l: hex(FIDS[f].int) for l, f in want.items()}, ctx)))
                continue
            for lid, o in got.items():
                f = want[lid]
                mo = self.objs[f]
                wo = w.objects.lookup_fullid(o.FullID)
                if wo is not o:
                    out.append(("index-disagree:identity", "region %d local %d is not the object found by full ID%s" % (hi, lid, ctx)))
                if mgr.lookup_fullid(o.FullID) is not o:
                    out.append(("index-disagree:region-fullid", "region %d lookup_fullid does not return its own local %d%s" % (hi, lid, ctx)))
                if o.LocalID != lid:
                    out.append(("index-disagree:localid", "object filed under %d says LocalID %r%s" % (lid, o.LocalID, ctx)))
                if o.RegionHandle != h:
                    out.append(("index-disagree:handle", "object in region %d says RegionHandle %r%s" % (hi, o.RegionHandle, ctx)))
                if o.ParentID != mo["parent"]:
                    out.append(("links:parent-id", "local %d ParentID %r, expected %r%s" % (lid, o.ParentID, mo["parent"], ctx)))
                wantp = want.get(mo["parent"]) if mo["parent"] else None
                try:
                    gp = o.Parent
                    gpf = None if gp is None else gp.FullID
                except ReferenceError:
                    gpf = "dead-weakref"
                if gpf != (None if wantp is None else FIDS[wantp]):
                    sig = "links:parent:" + ("orphan-not-adopted" if gpf is None else "stale" if wantp is None else "wrong")
                    out.append((sig, "local %d Parent -> %r, expected %r%s" % (lid, gpf, wantp, ctx)))
                wantc = sorted(self.objs[c]["lid"] for c in self.children(h, lid))
                if sorted(o.ChildIDs) != wantc:
                    sig = "links:children:" + ("missing" if set(wantc) - set(o.ChildIDs) else "extra" if set(o.ChildIDs) - set(wantc) else "dup")
                    out.append((sig, "local %d ChildIDs %r, expected %r%s" % (lid, list(o.ChildIDs), wantc, ctx)))
                try:
                    cl = [c.LocalID for c in o.Children]
                    ok = cl == list(o.ChildIDs) and all(got.get(c.LocalID) is c for c in o.Children)
                except ReferenceError:
                    ok = False
                if not ok:
                    out.append(("links:children-objects", "local %d Children do not mirror ChildIDs %r%s" % (lid, list(o.ChildIDs), ctx)))
        # futures
        for fu in self.futs:
            ft = fu["fut"]
            wantst = fu["want"]
            if wantst is None:
                if ft.done():
                    out.append(("future:spurious-%s" % ("cancel" if ft.cancelled() else "result"),
                                "request %s for local %r finished with nothing to finish it%s" % (fu["type"], fu["lid"], ctx)))
                    fu["want"] = "reported"
            elif wantst == "cancel":
                if not ft.done():
                    out.append(("future:left-pending:%s" % fu["type"], "request %s for local %r still pending though its object went away%s" % (fu["type"], fu["lid"], ctx)))
                    fu["want"] = "reported"
                elif not ft.cancelled():
                    # resolved in the same step before the object went away is impossible in our histories
                    out.append(("future:resolved-not-cancelled", "request %s for local %r has a result though its object went away%s" % (fu["type"], fu["lid"], ctx)))
                    fu["want"] = "reported"
                else:
                    fu["want"] = "done"
            elif isinstance(wantst, tuple):
                if not ft.done():
                    out.append(("future:not-resolved:%s" % fu["type"], "request %s for local %r still pending after its object was updated%s" % (fu["type"], fu["lid"], ctx)))
                    fu["want"] = "reported"
                elif ft.cancelled():
                    out.append(("future:cancelled-not-resolved", "request %s for local %r cancelled though its object was updated%s" % (fu["type"], fu["lid"], ctx)))
                    fu["want"] = "reported"
                else:
                    res = ft.result()
                    if getattr(res, "FullID", None) != FIDS[wantst[1]]:
                        out.append(("future:wrong-object", "request for local %r resolved with %r%s" % (fu["lid"], res, ctx)))
                    fu["want"] = "done"
        return out

    def finish(self):
        """teardown of the whole session: nothing may stay pending or tracked"""
        out = []
        for op in (("clear", 0, "clear"), ("clear", 1, "mark_dead"), ("sclear",)):
            out.extend(self.step(op))
        for fu in self.futs:
            if not fu["fut"].done():
                out.append(("future:pending-at-teardown", "request %s for local %r pending after every region was torn down" % (fu["type"], fu["lid"])))
        return out


# --------------------------------------------------------------------------------------------------------------------------
# generators


def _blocks(max_blocks):
    return st.lists(st.tuples(st.integers(0, 5), st.integers(1, NL), st.sampled_from([0, 0, 0, 1, 2, 3, 4, 5, 6])), min_size=1, max_size=max_blocks)


LIDS = st.lists(st.integers(1, NL), min_size=1, max_size=3)
REGION = st.sampled_from([0, 0, 0, 1])
OP = st.one_of(
    st.tuples(st.just("ann"), st.sampled_from(["full", "comp"]), st.sampled_from([0, 0, 0, 0, 0, 1, 1, 2]), _blocks(3)),
    st.tuples(st.just("ann"), st.sampled_from(["full", "comp"]), st.sampled_from([0, 0, 0, 1]), _blocks(2)),
    st.tuples(st.just("kill"), REGION, LIDS),
    st.tuples(st.just("kill"), REGION, st.lists(st.integers(1, NL), min_size=1, max_size=1)),
    st.tuples(st.just("terse"), REGION, LIDS),
    st.tuples(st.just("cached"), REGION, st.lists(st.tuples(st.integers(1, NL), st.booleans()), min_size=1, max_size=2)),
    st.tuples(st.just("cserve"), REGION, st.integers(0, 5), st.integers(1, NL), st.sampled_from([0, 0, 1, 2, 3])),
    st.tuples(st.just("props"), st.booleans(), st.lists(st.integers(0, 5), min_size=1, max_size=2)),
    st.tuples(st.just("req"), REGION, st.sampled_from(["obj", "obj", "props", "missing"]), LIDS),
    st.tuples(st.just("req"), REGION, st.sampled_from(["obj", "props"]), LIDS),
    st.tuples(st.just("clear"), st.sampled_from([0, 1, 1]), st.sampled_from(["mark_dead", "clear"])),
    st.tuples(st.just("track"), st.sampled_from([0, 1])),
)
# hand-written starting states the random part then continues from (a seed corpus: each reaches a state that takes several
# specific steps to build); the empty prologue is the most frequent
PROLOGUES = [
    [], [], [], [],
    # object known in region 1 is announced for region 0 while nothing tracks region 0, then region 0 starts being tracked
    [("ann", "full", 1, ((0, 1, 0),)), ("clear", 0, "clear"), ("ann", "full", 0, ((0, 2, 0),)), ("track", 0)],
    # linkset with an avatar sitting on it and a grandchild
    [("ann", "full", 0, ((0, 1, 0), (1, 2, 1), (4, 3, 1))), ("ann", "comp", 0, ((2, 4, 2),))],
    # three orphans (one avatar) waiting for the same parent
    [("ann", "full", 0, ((1, 2, 1), (2, 3, 1), (4, 4, 1)))],
    # several requests of both kinds pending on the same local IDs
    [("req", 0, "obj", (1, 2)), ("req", 0, "props", (1,)), ("req", 0, "obj", (1,))],
    # object kept by full ID only (moved to a handle nothing tracks)
    [("ann", "comp", 0, ((0, 1, 0), (1, 2, 1))), ("ann", "full", 2, ((0, 1, 0),))],
    # an avatar that sits down in the very update that moves it to a handle nothing tracks
    [("ann", "full", 0, ((4, 3, 0), (0, 1, 0))), ("ann", "full", 2, ((4, 3, 1),))],
]
HISTORY = st.tuples(st.sampled_from(["client", "proxy", "proxy"]), st.integers(0, 7), st.sampled_from(PROLOGUES),
                    st.lists(st.one_of(OP, OP, OP, st.tuples(st.just("sclear"))), min_size=3, max_size=40)
                    ).map(lambda t: (t[0], t[1], list(t[2]) + list(t[3])))


def _tuplify(o):
    if isinstance(o, (list, tuple)):
        return tuple(_tuplify(x) for x in o)
    return o


def run_history(ctx, kind, settings, ops, strict=False):
    run = Run(kind, settings, strict)
    res = []
    valid = True
    try:
        for op in ops:
            try:
                r = run.step(_tuplify(op))
            except Invalid:
                valid = False
                break
            res.extend(r)
            if res:
                break
        if valid and not res:
            res.extend(run.finish())
    finally:
        run.close()
    if res:
        res = [(s, m + " | trace " + repr(run.trace)[:1500]) for s, m in res]
    if ctx is not None and valid:
        ctx.count("histories")
        for k, v in run.counts.items():
            ctx.count(k, v)
    return res, run, valid


# 26-symbol alphabet for exhaustive enumeration: objects A=0 (prim), B=1 (prim), C=4 (avatar); home local IDs 1, 2, 3
ALPHABET = (
    [("ann", "full", 0, ((0, 1, p),)) for p in (0, 2, 3)]
    + [("ann", "comp", 0, ((1, 2, p),)) for p in (0, 1, 3)]
    + [("ann", "full", 0, ((4, 3, p),)) for p in (0, 1, 2)]
    + [("ann", "full", 0, ((0, 4, 0),)), ("ann", "comp", 0, ((1, 1, 0),)),
       ("ann", "full", 1, ((0, 1, 0),)), ("ann", "full", 1, ((1, 2, 1),)), ("ann", "full", 2, ((0, 1, 0),)),
       ("kill", 0, (1,)), ("kill", 0, (2,)), ("kill", 0, (3,)), ("kill", 0, (1, 2)),
       ("terse", 0, (1,)), ("cached", 0, ((2, False),)), ("props", False, (0,)),
       ("req", 0, "obj", (1,)), ("req", 0, "obj", (2,)), ("req", 0, "props", (1,)),
       ("clear", 0, "mark_dead"), ("track", 0)]
)


def shards(tier):
    th = tier == "thorough"
    depth = 5 if th else 4
    sh = []
    for a in range(len(ALPHABET)):
        if th:
            for b in range(len(ALPHABET)):
                sh.append({"kind": "enum", "prefix": [a, b], "depth": depth})
        else:
            sh.append({"kind": "enum", "prefix": [a], "depth": depth})
    for i in range(32 if th else 16):
        sh.append({"kind": "hist", "n": 2500 if th else 150})
    return sh


def run_shard(ctx, shard):
    if shard["kind"] == "enum":
        n = nt = 0
        sample = None

        def rec(seq):
            nonlocal n, nt, sample
            if len(seq) < shard["depth"]:
                # prefixes are covered by their extensions (the comparison runs after every step); only prune invalid ones
                if len(seq) >= 1:
                    run = Run("client", 0, True)
                    try:
                        for i in seq:
                            run.step(ALPHABET[i])
                    except Invalid:
                        return
                    finally:
                        run.close()
                for i in range(len(ALPHABET)):
                    rec(seq + [i])
                return
            ops = [ALPHABET[i] for i in seq]
            res, run, valid = run_history(ctx, "client", 0, ops, strict=True)
            if not valid:
                return
            n += 1
            if run.nontrivial:
                nt += 1
                sample = sample or ["client", 0, ops]
            if res:
                ctx.report(["client", 0, [list(o) for o in ops], True], res)
        rec(list(shard["prefix"]))
        ctx.bulk(n, nt, None, sample)
    else:
        def body(case):
            kind, settings, ops = case
            res, run, _ = run_history(ctx, kind, settings, ops)
            ctx.case([kind, settings, ops], nontrivial=run.nontrivial, classes=[kind])
            return res
        hyp_run(ctx, HISTORY, body, shard["n"])


def replay(ctx, case):
    kind, settings, ops = case[0], case[1], case[2]
    strict = bool(case[3]) if len(case) > 3 else False
    res, _, _ = run_history(None, kind, settings, ops, strict=strict)
    return res
