"""C04 - packet-ID translation around injected packets is an order-preserving bijection."""
import itertools
import logging

from hypothesis import strategies as st

from hippolyzer.lib.base.message.message import Message, Block
from hippolyzer.lib.base.message.msgtypes import PacketFlags
from hippolyzer.lib.base.network.transport import Direction
from hippolyzer.lib.proxy.circuit import ProxiedCircuit, InjectionTracker

from vlib.runner import hyp_run

PROPERTY = "C04"
LEVEL = "exploration"
RULE = ("histories over {S: endpoint sends next ID, X: next ID first seen as a RESENT copy, H: skips one ID ahead, "
        "F: sends the oldest not-yet-sent ID, Rn/Ro: resends newest/oldest sent ID, I: proxy injects}, each applied "
        "to a real ProxiedCircuit.prepare_message with a tracker window of 1..4 (exhaustive to a depth bound) or "
        "1..10000 (Hypothesis walks); after EVERY prefix every original ID 1..max+3 and every wire ID 1..max+3 is "
        "translated both ways and compared with an unbounded-memory reference model; plus the circuit-level verdicts of C05's "
        "harness (pings, PacketAcks, re-sent copies, stability of every translation) and repeated circuit-opening requests.  Non-trivial = history with an "
        "injection followed by an endpoint send; distinct by (window, symbol sequence).")
ASSUMPTIONS = [
    "reference model: I = all wire IDs ever injected; eff(o) = the o-th positive integer not in I; orig(w) = w - |{i in I: i<w}|",
    "forward translations are only judged for original IDs whose wire ID is newer than every injection that has left "
    "the window (the tracker has bounded memory by design); reverse ones for non-injected wire IDs newer than those",
    "no packet-ID wrap-around (the tracker documents that it does not handle it)",
]
EXHAUSTIVE_PARTS = {"quick": ["all 7-symbol histories to depth 7, windows 1,2,3"],
                    "thorough": ["all 7-symbol histories to depth 8, windows 1,2,3,4"]}
FLOORS = {"quick": {"h_nontrivial": 5000, "h_eviction": 2000, "q_fwd": 100000, "q_rev": 100000},
          "thorough": {"h_nontrivial": 5000, "h_eviction": 2000}}
MANIFEST = {
    "text": "Bounded-exhaustive exploration of send/resend/reorder/inject interleavings on the real proxied circuit with "
            "small tracker windows (so eviction is reached), plus long Hypothesis walks; after every prefix every ID in "
            "range is translated in both directions and compared with an independent unbounded-memory model, so any "
            "deviation within the depth bound is found deterministically.",
    "note": "Trusts the 20-line reference model. IDs older than an evicted injection are out of scope (bounded memory). "
            "Depth-bounded: violations needing more than 7 (quick) / 8 (thorough) events are only reached by the random walks.",
    "technique": "bounded exhaustive history enumeration + Hypothesis random walks against a reference model",
}

SYMS = ("S", "X", "H", "F", "Rn", "Ro", "I")
logging.getLogger().setLevel(logging.CRITICAL)


class Model:
    def __init__(self, maxlen):
        self.maxlen = maxlen
        self.I = []            # all injected wire ids, ascending
        self.sent = {}         # orig id -> wire id recorded at first send
        self.max_orig = 0
        self.max_wire = 0      # highest wire id seen (sent or injected)

    @property
    def window(self):
        return self.I[-self.maxlen:]

    @property
    def evicted_max(self):
        ev = self.I[:-self.maxlen] if len(self.I) > self.maxlen else []
        return ev[-1] if ev else 0

    def noninjected(self, upto):
        s = set(self.I)
        return [w for w in range(1, upto + 1) if w not in s]

    def eff(self, o):
        # o-th positive integer not in I
        s = set(self.I)
        w = 0
        k = 0
        while k < o:
            w += 1
            if w not in s:
                k += 1
        return w

    def orig(self, w):
        return w - sum(1 for i in self.I if i < w)

    def unsent_below(self):
        return [o for o in range(1, self.max_orig) if o not in self.sent]


class Harness:
    def __init__(self, maxlen):
        self.c = ProxiedCircuit(("127.0.0.1", 1), ("127.0.0.1", 2), None)
        self.c.out_injections = InjectionTracker(0, maxlen=maxlen)
        self.t = self.c.out_injections
        self.m = Model(maxlen)
        self.trace = []

    def _send(self, o, resent=False):
        flags = PacketFlags.RELIABLE | (PacketFlags.RESENT if resent else 0)
        msg = Message("ChatFromViewer", Block("AgentData", fill_missing=True), Block("ChatData", fill_missing=True),
                      packet_id=o, flags=flags, direction=Direction.OUT)
        msg.synthetic = False
        self.c.prepare_message(msg)
        return msg.packet_id

    def step(self, sym):
        """returns list of (sig,msg) violations local to this step, or None if the symbol is not enabled"""
        m = self.m
        out = []
        if sym in ("S", "X", "H"):
            o = m.max_orig + (2 if sym == "H" else 1)
            exp = m.eff(o)
            w = self._send(o, resent=(sym == "X"))
            if w != exp:
                out.append(("send:wire-id", "first send of original %d got wire %d, model %d" % (o, w, exp)))
            if w in m.I:
                out.append(("send:collides-with-injected", "original %d was given injected wire id %d" % (o, w)))
            m.sent[o] = w
            m.max_orig = o
            m.max_wire = max(m.max_wire, exp)
        elif sym == "F":
            holes = m.unsent_below()
            if not holes:
                return None
            o = holes[0]
            exp = m.eff(o)
            if exp <= m.evicted_max:
                return None
            w = self._send(o)
            if w != exp:
                out.append(("send:late-wire-id", "late first send of original %d got wire %d, model %d" % (o, w, exp)))
            m.sent[o] = w
        elif sym in ("Rn", "Ro"):
            cands = [o for o, w in m.sent.items() if w > m.evicted_max]
            if not cands:
                return None
            o = max(cands) if sym == "Rn" else min(cands)
            w = self._send(o, resent=True)
            if w != m.sent[o]:
                out.append(("resend:unstable", "resend of original %d got wire %d, first time %d" % (o, w, m.sent[o])))
        elif sym == "I":
            msg = Message("ChatFromViewer", Block("AgentData", fill_missing=True), Block("ChatData", fill_missing=True),
                          direction=Direction.OUT)
            self.c.prepare_message(msg)
            w = msg.packet_id
            if w <= m.max_wire:
                out.append(("inject:not-above-seen", "injected id %d is not above highest wire id seen %d" % (w, m.max_wire)))
            if w in m.sent.values() or w in m.I:
                out.append(("inject:reuses-id", "injected id %d already used on the wire" % w))
            m.I.append(w)
            m.I.sort()
            m.max_wire = max(m.max_wire, w)
        else:
            raise ValueError(sym)
        self.trace.append(sym)
        return out

    def sweep(self, ctx=None, ids=None):
        """translate every id in range both ways and compare with the model"""
        m, t = self.m, self.t
        out = []
        ev = m.evicted_max
        hi_o = m.max_orig + 3
        hi_w = m.max_wire + 3
        Iset = set(m.I)
        win = set(m.window)
        prev = None
        nq_f = nq_r = 0
        for o in (ids or range(1, hi_o + 1)):
            exp = m.eff(o)
            if exp <= ev:
                continue
            nq_f += 1
            got = t.get_effective_id(o)
            if got != exp:
                kind = "sent" if o in m.sent else "unsent"
                out.append(("eff:mismatch:%s" % kind, "get_effective_id(%d) = %d, model %d (I=%s window=%s)" % (o, got, exp, m.I, sorted(win))))
            if got in Iset:
                out.append(("eff:yields-injected", "get_effective_id(%d) = %d which the proxy injected" % (o, got)))
            if prev is not None and not got > prev[1] and ids is None:
                out.append(("eff:not-increasing", "eff(%d)=%d but eff(%d)=%d" % (prev[0], prev[1], o, got)))
            prev = (o, got)
        for w in (ids or range(1, hi_w + 1)):
            if w <= ev:
                continue
            if w in Iset:
                if w in win:
                    if not t.was_injected(w):
                        out.append(("inj:forgotten", "was_injected(%d) false for in-window injection" % w))
                    try:
                        r = t.get_original_id(w)
                        out.append(("orig:injected-translated", "get_original_id(%d) of an injected id returned %r" % (w, r)))
                    except ValueError:
                        pass
                continue
            nq_r += 1
            if t.was_injected(w):
                out.append(("inj:false-positive", "was_injected(%d) true for a non-injected id" % w))
            exp = m.orig(w)
            try:
                got = t.get_original_id(w)
            except Exception as e:
                out.append(("orig:raises", "get_original_id(%d) raised %r" % (w, e)))
                continue
            if got != exp:
                below = any(i < w for i in win)
                above = any(i > w for i in win)
                kind = "between-window-injections" if (below and above) else "other"
                out.append(("orig:mismatch:%s" % kind, "get_original_id(%d) = %d, model %d (I=%s window=%s)" % (w, got, exp, m.I, sorted(win))))
            else:
                back = t.get_effective_id(got)
                if back != w and m.eff(got) > ev:
                    out.append(("orig:not-inverse", "eff(orig(%d)) = %d" % (w, back)))
        if ctx is not None:
            ctx.count("q_fwd", nq_f)
            ctx.count("q_rev", nq_r)
        return out


def run_history(ctx, maxlen, syms, sweep_every=False, count=True):
    h = Harness(maxlen)
    res = []
    applied = []
    for i, s in enumerate(syms):
        r = h.step(s)
        if r is None:
            return None, applied   # symbol not enabled: history is not legal
        applied.append(s)
        res.extend(r)
        if sweep_every or i == len(syms) - 1:
            res.extend(h.sweep(ctx if count else None))
    return res, h


def classify(h):
    tr = h.trace
    cls = []
    if "I" in tr and any(s != "I" for s in tr[tr.index("I") + 1:]):
        cls.append("h_nontrivial")
    if len(h.m.I) > h.m.maxlen:
        cls.append("h_eviction")
    if "F" in tr:
        cls.append("h_hole_filled")
    if "Rn" in tr or "Ro" in tr:
        cls.append("h_resend")
    return cls


def shards(tier):
    th = tier == "thorough"
    depth = 8 if th else 7
    wins = (1, 2, 3, 4) if th else (1, 2, 3)
    sh = []
    for w in wins:
        for a in SYMS:
            for b in SYMS:
                sh.append({"kind": "enum", "maxlen": w, "prefix": [a, b], "depth": depth})
    for i in range(16):
        sh.append({"kind": "walk", "n": 1500 if th else 120, "maxsteps": 300 if th else 80})
    for i in range(4):
        sh.append({"kind": "circuit_ping", "n": 1500 if th else 150})
    sh.append({"kind": "reopen"})
    return sh


def _enum(ctx, maxlen, prefix, depth):
    # every node (prefix) of the tree is evaluated once: re-run from scratch, sweep at the end
    n = nt = 0
    sample = None
    cls = {}

    def rec(seq):
        nonlocal n, nt, sample
        res, h = run_history(ctx, maxlen, seq)
        if res is None:
            return
        n += 1
        c = classify(h)
        for k in c:
            cls[k] = cls.get(k, 0) + 1
        if "h_nontrivial" in c:
            nt += 1
            if sample is None and len(seq) >= 5 and "h_eviction" in c:
                sample = {"window": maxlen, "history": list(seq)}
        if res:
            ctx.report({"maxlen": maxlen, "history": list(seq)}, res)
        if len(seq) < depth:
            for s in SYMS:
                rec(seq + [s])

    # the two-symbol prefix itself and its one-symbol parent are evaluated by the shard that owns them
    if prefix[1] == SYMS[0]:
        if prefix[0] == SYMS[0]:
            pass
        res, h = run_history(ctx, maxlen, [prefix[0]])
        if res is not None:
            n += 1
            if res:
                ctx.report({"maxlen": maxlen, "history": [prefix[0]]}, res)
    rec(list(prefix))
    ctx.bulk(n, nt, cls, sample)


walk_strategy = st.tuples(
    st.sampled_from([1, 2, 3, 5, 10, 10000]),
    st.lists(st.sampled_from(SYMS + ("S", "S", "I", "I")), min_size=3, max_size=300),
)


def _walk_body(ctx, maxsteps):
    def body(case):
        maxlen, syms = case
        syms = syms[:maxsteps]
        h = Harness(maxlen)
        res = []
        for s in syms:
            r = h.step(s)
            if r is None:
                continue
            res.extend(r)
            if h.m.max_wire <= 90:
                res.extend(h.sweep(ctx))
            else:
                lo = max(1, h.m.max_wire - 50)
                ids = sorted(set(list(range(lo, h.m.max_wire + 3)) + list(range(1, lo, max(1, lo // 30)))))
                res.extend(h.sweep(ctx, ids=ids))
            if res:
                break
        ctx.case({"maxlen": maxlen, "history": h.trace}, nontrivial="h_nontrivial" in classify(h), classes=classify(h) + ["walk"])
        # report with the *applied* trace so the replay is exact
        return [(sig, msg) for sig, msg in res]
    return body


# verdicts of the circuit harness that are about packet-ID translation (forward: emitted wire IDs, injected IDs, ping rewriting;
# backward: the IDs acknowledgements are translated to)
_CIRCUIT_SIGS = ("ping:", "emit:", "inject:", "acks:", "retake:id", "drop:ack-id", "ids:")


def _circuit_ping(ctx, n):
    """the second place the forward translation is applied: ProxiedCircuit rewrites StartPingCheck.OldestUnacked with it.  Driven
    through C05's circuit harness (both directions, injections, drops); only the ping verdicts belong to this property."""
    from hypothesis import strategies as st
    from checks import c05
    ev = st.one_of(c05.EV, st.tuples(st.just("ping"), st.sampled_from([c05.V, c05.S]), st.sampled_from(["oldest", "newest", "next"])),
                   st.tuples(st.just("inject"), st.sampled_from([c05.V, c05.S]), st.booleans()),
                   st.tuples(st.just("pack"), st.sampled_from([c05.V, c05.S]), st.sampled_from(["injonly", "mix", "all"]), st.sampled_from(["realonly", "mix", "none"])))

    def body(case):
        wire, events = case["wire"], case["events"]
        h = c05.Harness(wire=wire)
        res = []
        pings = 0
        for e in events:
            r = h.step(tuple(e))
            if r is None:
                continue
            if e[0] == "ping":
                pings += 1
            res.extend(x for x in r if x[0].startswith(_CIRCUIT_SIGS))
            if r:
                break
        h.teardown()
        after_inj = "inject" in [t[0] for t in h.trace] and pings > 0
        ctx.case(case, nontrivial=after_inj, classes=["circuit_ping"] + (["ping_after_injection"] if after_inj else []))
        return res
    hyp_run(ctx, st.fixed_dictionaries({"wire": st.booleans(), "events": st.tuples(st.integers(0, 1), st.lists(ev, min_size=3, max_size=40)).map(
        lambda t: ([("zero_based",)] if t[0] == 0 else []) + list(t[1]))}), body, n)


def reopen_laws(case):
    """a viewer repeats its circuit-opening request on a circuit that is open and alive (its acknowledgement got lost): the circuit -
    and with it the whole ID translation state of both directions - stays what it is"""
    from hippolyzer.lib.base.message.message import Message, Block
    from hippolyzer.lib.base.network.transport import Direction
    from hippolyzer.lib.base.test_utils import MockTransport
    from hippolyzer.lib.proxy.sessions import SessionManager
    from hippolyzer.lib.proxy.settings import ProxySettings
    from hippolyzer.lib.proxy.addons import AddonManager
    from hippolyzer.lib.base.datatypes import UUID
    n_out, n_in, seen_out, seen_in = case["reopen"]
    sm = SessionManager(ProxySettings())
    AddonManager.init([], sm, addon_objects=[])
    out = []
    try:
        sess = sm.create_session({"session_id": UUID(int=1), "secure_session_id": UUID(int=2), "agent_id": UUID(int=3), "circuit_code": 7,
                                  "sim_ip": "10.9.0.1", "sim_port": 13000, "region_x": 1000, "region_y": 1000, "seed_capability": "https://s/seed"})
        tr = MockTransport()
        addr = ("10.9.0.1", 13000)
        if not sess.open_circuit(("127.0.0.1", 5), addr, tr):
            return [("harness:open", "could not open the circuit")]
        circ = sess.regions[0].circuit
        for pid in range(1, seen_out + 1):
            circ.send(Message("AgentPause", Block("AgentData", AgentID=UUID(int=3), SessionID=UUID(int=1), SerialNum=pid), packet_id=pid, direction=Direction.OUT))
        for pid in range(1, seen_in + 1):
            circ.send(Message("AgentMovementComplete", packet_id=pid, direction=Direction.IN))
        for _ in range(n_out):
            circ.send(Message("AgentPause", Block("AgentData", AgentID=UUID(int=3), SessionID=UUID(int=1), SerialNum=0), direction=Direction.OUT))
        for _ in range(n_in):
            circ.send(Message("AgentMovementComplete", direction=Direction.IN))
        before = {(d, o): (circ.out_injections if d == "out" else circ.in_injections).get_effective_id(o)
                  for d, top in (("out", seen_out), ("in", seen_in)) for o in range(1, top + 3)}
        ok = sess.open_circuit(("127.0.0.1", 5), addr, tr)
        circ2 = sess.regions[0].circuit
        if not ok:
            out.append(("reopen:refused", "re-opening an open circuit returned %r" % (ok,)))
        after = {(d, o): (circ2.out_injections if d == "out" else circ2.in_injections).get_effective_id(o) for (d, o) in before}
        if after != before:
            diff = next(k for k in before if before[k] != after[k])
            out.append(("reopen:translation-reset", "after a repeated circuit-opening request %s packet %d translates to %d, before to %d" % (
                diff[0], diff[1], after[diff], before[diff])))
    finally:
        try:
            AddonManager.shutdown()
        except Exception:
            pass
        AddonManager.FRESH_ADDON_MODULES.clear()
    return out


def run_shard(ctx, shard):
    if shard["kind"] == "reopen":
        import itertools
        n = 0
        for combo in itertools.product(range(0, 3), range(0, 3), (0, 1, 4), (0, 2)):
            n += 1
            res = reopen_laws({"reopen": list(combo)})
            if res:
                ctx.report({"reopen": list(combo)}, res)
        ctx.bulk(n, n - 6, {"reopen_cases": n}, {"reopen": [1, 1, 4, 2]})
    elif shard["kind"] == "circuit_ping":
        _circuit_ping(ctx, shard["n"])
    elif shard["kind"] == "enum":
        _enum(ctx, shard["maxlen"], shard["prefix"], shard["depth"])
    else:
        hyp_run(ctx, walk_strategy, _walk_body(ctx, shard["maxsteps"]), shard["n"])


def replay(ctx, case):
    if isinstance(case, dict) and "reopen" in case:
        return reopen_laws(case)
    if isinstance(case, dict) and "events" in case:
        from checks import c05
        h = c05.Harness(wire=case["wire"])
        res = []
        for e in case["events"]:
            r = h.step(tuple(e))
            if r is None:
                continue
            res.extend(x for x in r if x[0].startswith(_CIRCUIT_SIGS))
            if r:
                break
        h.teardown()
        return res
    if isinstance(case, dict):
        maxlen, syms = case["maxlen"], case["history"]
    else:
        maxlen, syms = case
    h = Harness(maxlen)
    res = []
    for s in syms:
        r = h.step(s)
        if r is None:
            continue
        res.extend(r)
        res.extend(h.sweep())
    return res
