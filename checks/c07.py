"""C07 - addons cannot duplicate, lose or wedge traffic: at-most-once, fault-isolated."""
import asyncio
import itertools
from collections import Counter

from hypothesis import strategies as st

from hippolyzer.lib.base.datatypes import UUID
from hippolyzer.lib.base.message.message import Message, Block
from hippolyzer.lib.base.message.msgtypes import PacketFlags
from hippolyzer.lib.base.network.transport import Direction
from hippolyzer.lib.proxy.commands import handle_command
from hippolyzer.lib.base.message.udpdeserializer import UDPMessageDeserializer
from hippolyzer.lib.base.settings import Settings
from hippolyzer.lib.proxy.circuit import ProxiedCircuit

from vlib.proxy_harness import ProxyWorld, ensure_loop, drain
from vlib.runner import hyp_run
from checks.c02 import ref_datagram
from checks.c06 import ucc_case

PROPERTY = "C07"
LEVEL = "fault_enumeration"
RULE = ("(A) every sequence up to length 6 of the ownership operations {take, send original, drop original, send taken copy, "
        "drop taken copy, proxy tail (queued=>drop, unfinalized=>send)} on one (un)reliable message through a real "
        "ProxiedCircuit; (B) addon programs: up to three addon objects, each assigned a behaviour at each hook point "
        "(handle_proxied_packet, handle_lludp_message, handle_rlv_command, session- and region-level message_handler "
        "subscribers incl. predicates / wait_for / subscribe_async) from {return falsy values, return truthy values, raise "
        "Exception subclasses, take (+send / keep / send twice), drop (+again / then send), send original (+again), send a "
        "new message, mutate, only read}, abandoned time-limited waiters, over a stream of viewer and simulator messages (reliable or "
        "not, command-channel chat with unknown / failing / good commands, RLV owner-say with 0-3 commands, an unparseable datagram, "
        "AgentDataUpdate for the proxy's own bookkeeping).  Quick = all single and all double deviation placements + generated multi-deviation programs; thorough "
        "runs the pairs over all four message streams and 40x the random programs.  Non-trivial = program in which at least one hook deviates from `return None`; distinct by program.")
ASSUMPTIONS = [
    "emissions are attributed to message objects through the ProxiedCircuit._send_prepared_message seam (as the repository's tests do)",
        "hook behaviours raise Exception subclasses (not BaseException such as SystemExit)",
]
EXHAUSTIVE_PARTS = {"quick": ["ownership sequences to length 6 x reliable flag", "all single- and double-deviation addon programs (pairs over 2 of the 4 message streams)"],
                    "thorough": ["ownership sequences to length 7 x reliable flag", "all single- and double-deviation addon programs"]}
FLOORS = {"quick": {"programs": 900, "ownership_sequences": 10000, "claimed": 200, "raised_in_hook": 200, "illegal_attempts": 100}}
MANIFEST = {
    "text": "Enumeration of fault/behaviour placements: every single deviating behaviour at every hook point and addon slot over "
            "every message kind (thorough: all pairs), plus random multi-deviation programs and the exhaustive ownership "
            "state machine; per original datagram the wire emissions, acks, hook invocations, logger calls and RuntimeErrors "
            "are compared with what the property allows.",
    "note": "Behaviour alphabet is finite and chosen by hand from the property text; asyncio tasks spawned by addons are drained between datagrams.",
    "technique": "fault/behaviour enumeration + Hypothesis programs over addon hooks; exhaustive ownership state machine; invariant oracles on emissions",
}

_D = Settings()
_D.ENABLE_DEFERRED_PACKET_PARSING = False
DESER = UDPMessageDeserializer(settings=_D)


# =====================================================================================================
# (A) ownership state machine
# =====================================================================================================
class RecCircuit(ProxiedCircuit):
    def __init__(self):
        super().__init__(("127.0.0.1", 1), ("10.0.0.1", 2), None)
        self.emitted = []

    def _send_prepared_message(self, message, transport=None):
        self.emitted.append(message)


OWN_OPS = ("take", "send_orig", "drop_orig", "send_copy", "drop_copy", "tail")


def run_ownership(ops, reliable):
    ensure_loop()
    c = RecCircuit()
    m = Message("ChatFromViewer", Block("AgentData", fill_missing=True), Block("ChatData", fill_missing=True),
                packet_id=5, flags=int(PacketFlags.RELIABLE) if reliable else 0, direction=Direction.OUT)
    m.synthetic = False
    copies = []
    out = []
    model = {"fin": False, "queued": False, "dropped": False}
    cmodel = []
    for i, op in enumerate(ops):
        before = len(c.emitted)
        err = None
        try:
            if op == "take":
                copies.append(m.take())
                cmodel.append({"fin": False})
            elif op == "send_orig":
                c.send(m)
            elif op == "drop_orig":
                c.drop_message(m)
            elif op == "send_copy":
                if not copies:
                    return None
                c.send(copies[-1])
            elif op == "drop_copy":
                if not copies:
                    return None
                c.drop_message(copies[-1])
            elif op == "tail":
                if m.queued:
                    c.drop_message(m)
                if not m.finalized:
                    c.send(m)
        except RuntimeError as e:
            err = e
        except Exception as e:
            out.append(("ownership:raises:%s" % type(e).__name__, "%s raised %r" % (op, e)))
            break
        new = c.emitted[before:]
        # model
        exp_err = False
        exp_emit_m = 0
        exp_emit_copy = 0
        if op == "take":
            if not model["fin"]:
                model["queued"] = True
        elif op == "send_orig":
            if model["fin"] or model["queued"]:
                exp_err = True
            else:
                model["fin"] = True
                exp_emit_m = 1
        elif op == "drop_orig":
            if model["fin"]:
                exp_err = True
            else:
                model["fin"] = model["dropped"] = True
        elif op == "send_copy":
            if cmodel[-1]["fin"]:
                exp_err = True
            else:
                cmodel[-1]["fin"] = True
                exp_emit_copy = 1
        elif op == "drop_copy":
            if cmodel[-1]["fin"]:
                exp_err = True
        elif op == "tail":
            if model["queued"]:
                if model["fin"]:
                    exp_err = True
                else:
                    model["fin"] = model["dropped"] = True
            if not exp_err and not model["fin"]:
                model["fin"] = True
                exp_emit_m = 1
        got_m = sum(1 for e in new if e is m)
        got_copy = sum(1 for e in new if any(e is cp for cp in copies))
        if exp_err and err is None:
            out.append(("ownership:illegal-op-allowed:%s" % op, "step %d %s on a %s message did not raise" % (
                i, op, "finalized/queued")))
        if not exp_err and err is not None:
            out.append(("ownership:legal-op-refused:%s" % op, "step %d %s raised %r" % (i, op, err)))
        if exp_err and (got_m or got_copy):
            out.append(("ownership:emitted-despite-error:%s" % op, "step %d %s raised but emitted" % (i, op)))
        if not exp_err and (got_m != exp_emit_m or got_copy != exp_emit_copy):
            out.append(("ownership:emission-count:%s" % op, "step %d %s emitted original x%d copy x%d, expected x%d x%d" % (
                i, op, got_m, got_copy, exp_emit_m, exp_emit_copy)))
        if out:
            break
    total_m = sum(1 for e in c.emitted if e is m)
    if total_m > 1:
        out.append(("ownership:original-sent-twice", "original put on the wire %d times by %r" % (total_m, ops)))
    for cp in copies:
        if sum(1 for e in c.emitted if e is cp) > 1:
            out.append(("ownership:copy-sent-twice", "a taken copy was put on the wire twice by %r" % (ops,)))
    acks = [e for e in c.emitted if e.name == "PacketAck" and e.direction == Direction.IN]
    want_acks = 1 if (reliable and model["dropped"]) else 0
    n_acks = sum(1 for e in acks for b in e["Packets"] if b["ID"] == 5)
    if n_acks != want_acks and not out:
        out.append(("ownership:drop-ack-count", "dropped=%s reliable=%s but sender was acked %d times (%r)" % (
            model["dropped"], reliable, n_acks, ops)))
    return out


# =====================================================================================================
# (B) addon programs
# =====================================================================================================
FALSY = {"none": None, "zero": 0, "empty": "", "false": False}
TRUTHY = {"true": True, "one": 1, "obj": "object"}
RAISES = {"raise_exc": Exception, "raise_key": KeyError, "raise_rt": RuntimeError, "raise_val": ValueError}
B_PACKET = ["none", "zero", "true", "obj", "raise_exc", "raise_key"]
B_LLUDP = ["none", "zero", "empty", "false", "true", "one", "obj", "raise_exc", "raise_key", "raise_rt", "raise_val",
           "take_keep", "take_send", "take_send_twice", "take_then_send_orig", "drop", "drop_twice", "drop_then_send",
           "send_orig", "send_orig_twice", "send_orig_true", "send_new", "mutate", "touch"]
B_RLV = ["none", "true", "raise_exc", "false"]
B_SUB = ["absent", "noop", "raise", "pred_raise", "pred_false", "take_waitfor", "take_async", "observe_async", "unsub_self",
         "take_waitfor_pred_raise", "take_async_pred_raise", "waitfor_abandoned", "async_left_by_exception"]
HOOKS = (("packet", B_PACKET), ("lludp", B_LLUDP), ("rlv", B_RLV), ("session_sub", B_SUB), ("region_sub", B_SUB))
DEFAULT = {"packet": "none", "lludp": "none", "rlv": "none", "session_sub": "absent", "region_sub": "absent"}
MSG_KINDS = ["v2s_rel", "s2v_unrel", "v2s_cmd", "s2v_rlv1", "s2v_rlv3", "s2v_rel_acks", "s2v_rlv0", "v2s_cmd_bad", "v2s_cmd_ok", "v2s_truncated",
             "s2v_agentdata"]


class _Custom(Exception):
    pass


class Recorder:
    def __init__(self):
        self.log = []          # (k, addon, hook, behaviour, outcome)
        self.cur = None
        self.messages = {}     # k -> original Message object
        self.copies = {}       # k -> [copies]
        self.illegal = []      # (k, what, raised RuntimeError?, emitted?)
        self.logged = Counter()
        self.emitted = []      # (message object, k at emission time)
        self.takes = Counter()
        self.drops = Counter()


class Addon:
    def __init__(self, idx, prog, rec):
        self.idx = idx
        self.prog = prog
        self.rec = rec

    def __repr__(self):
        return "<Addon %d>" % self.idx

    def _ret(self, b):
        if b in FALSY:
            return FALSY[b]
        if b in TRUTHY:
            return object() if TRUTHY[b] == "object" else TRUTHY[b]
        if b in RAISES:
            raise RAISES[b]("addon %d misbehaves" % self.idx)
        raise AssertionError(b)

    def handle_proxied_packet(self, session_manager, packet, session, region):
        if self.rec.cur == "ucc":
            return None     # circuit set-up traffic is not part of the program
        b = self.prog["packet"]
        self.rec.log.append((self.rec.cur, self.idx, "packet", b))
        return self._ret(b)

    @handle_command(count=int)
    async def repeat(self, _session, _region, count: int):
        """a command with a typed parameter: "repeat lots" fails in parameter parsing, synchronously"""
        self.rec.log.append((self.rec.cur, self.idx, "command", count))

    def handle_rlv_command(self, session, region, source, behaviour, options, param):
        b = self.prog["rlv"]
        self.rec.log.append((self.rec.cur, self.idx, "rlv", b))
        return self._ret(b)

    def _attempt(self, k, what, fn, circuit_rec):
        before = len(self.rec.emitted)
        raised = False
        try:
            fn()
        except RuntimeError:
            raised = True
        self.rec.illegal.append((k, what, raised, len(self.rec.emitted) - before))

    def handle_lludp_message(self, session, region, message):
        if self.rec.cur == "ucc":
            return None
        b = self.prog["lludp"]
        k = self.rec.cur
        self.rec.log.append((k, self.idx, "lludp", b))
        self.rec.messages.setdefault(k, message)
        c = region.circuit
        if b in FALSY or b in TRUTHY or b in RAISES:
            return self._ret(b)
        if b.startswith("take"):
            already_final = message.finalized
            cp = message.take()
            self.rec.takes[k] += 1
            self.rec.copies.setdefault(k, []).append(cp)
            if b == "take_send":
                c.send(cp)
            elif b == "take_send_twice":
                c.send(cp)
                self._attempt(k, "resend taken copy", lambda: c.send(cp), c)
            elif b == "take_then_send_orig" and not already_final:
                self._attempt(k, "send original of taken message", lambda: c.send(message), c)
            return None
        if b.startswith("drop"):
            if message.finalized:
                self._attempt(k, "drop finalized", lambda: c.drop_message(message), c)
                return None
            c.drop_message(message)
            self.rec.drops[k] += 1
            if b == "drop_twice":
                self._attempt(k, "re-drop", lambda: c.drop_message(message), c)
            elif b == "drop_then_send":
                self._attempt(k, "send dropped", lambda: c.send(message), c)
            return None
        if b.startswith("send_orig"):
            if message.finalized or message.queued:
                self._attempt(k, "send finalized/queued", lambda: c.send(message), c)
                return True if b == "send_orig_true" else None
            c.send(message)
            if b == "send_orig_twice":
                self._attempt(k, "re-send", lambda: c.send(message), c)
            return True if b == "send_orig_true" else None
        if b == "send_new":
            new = Message("ChatFromSimulator", Block("ChatData", fill_missing=True), direction=Direction.IN)
            c.send(new)
            return None
        if b == "touch":
            # only reads the message (and fails if its body cannot be parsed); reading must not change what is forwarded
            _ = message.blocks
            return None
        if b == "mutate":
            if "ChatData" in message:
                message["ChatData"]["Message"] = "mutated by %d" % self.idx
            return None
        raise AssertionError(b)


class Logger:
    def __init__(self, rec):
        self.rec = rec

    def log_lludp_message(self, session, region, message):
        if not message.synthetic:
            self.rec.logged[self.rec.cur] += 1

    def __getattr__(self, name):
        if name.startswith("log_"):
            return lambda *a, **kw: None
        raise AttributeError(name)


def _chat_v2s(pid, channel, reliable, text, world):
    s = world.viewers[0]["session"]
    return {"name": "ChatFromViewer", "flags": 0x40 if reliable else 0, "pid": pid, "acks": [], "extra": b"", "fill": False,
            "blocks": [["AgentData", [{"AgentID": s.agent_id.hex, "SessionID": s.id.hex}]],
                       ["ChatData", [{"Message": text, "Type": 1, "Channel": channel}]]]}


def _chat_s2v(pid, reliable, text, chat_type, acks=()):
    return {"name": "ChatFromSimulator", "flags": (0x40 if reliable else 0) | (0x10 if acks else 0), "pid": pid, "acks": list(acks),
            "extra": b"", "fill": False,
            "blocks": [["ChatData", [{"FromName": "o", "SourceID": "%032x" % 7, "OwnerID": "%032x" % 8, "SourceType": 2,
                                       "ChatType": chat_type, "Audible": 1, "Position": (1.0, 2.0, 3.0), "Message": text}]]]}


def run_program(program):
    """program: {"addons": [ {hook: behaviour} x n ], "messages": [kind...]}"""
    ensure_loop()
    rec = Recorder()
    addons = [Addon(i, dict(DEFAULT, **p), rec) for i, p in enumerate(program["addons"])]
    world = ProxyWorld(1, 1, deferred=True, addons=addons, logger=Logger(rec))
    out = []
    sub_invocations = Counter()     # (k, addon, level)
    cms = []
    try:
        # open the circuit (hooks run for it too; judged like any other message is not needed)
        rec.cur = "ucc"
        world.from_viewer(0, world.viewers[0]["regions"][0], ref_datagram(ucc_case(world, 0, 1)))
        sess = world.viewers[0]["session"]
        region = sess.regions[0]
        sess.main_region = region
        circuit = region.circuit
        orig_send = circuit._send_prepared_message

        def spy(message, transport=None):
            rec.emitted.append((message, rec.cur))
            return orig_send(message, transport)
        circuit._send_prepared_message = spy

        # the proxy itself has one reliable packet outstanding toward the simulator: collecting the ack for it is part of "the
        # proxy's own bookkeeping", whatever the addons do with the message that carries the ack
        rec.cur = "inject"
        inj = Message("AgentPause", Block("AgentData", AgentID=sess.agent_id, SessionID=sess.id, SerialNum=1), direction=Direction.OUT)
        inj_fut = circuit.send_reliable(inj)
        inj_pid = inj.packet_id

        # observer: first subscriber on the session handler, captures the message object of each datagram
        def observer(msg):
            rec.messages.setdefault(rec.cur, msg)
        sess.message_handler.subscribe("*", observer)
        for n_ in ("ChatFromViewer", "ChatFromSimulator"):
            sess.message_handler.subscribe(n_, observer)

        # subscribers on behalf of the addons
        names = ("ChatFromViewer", "ChatFromSimulator")
        keep = []
        for a in addons:
            for level, handler in (("session_sub", sess.message_handler), ("region_sub", region.message_handler)):
                b = a.prog[level]
                if b == "absent":
                    continue

                def mk(a=a, level=level, b=b):
                    def cb(msg):
                        sub_invocations[(rec.cur, a.idx, level)] += 1
                        rec.log.append((rec.cur, a.idx, level, b))
                        if b == "raise":
                            raise _Custom("subscriber of addon %d fails" % a.idx)
                        if b == "unsub_self":
                            return True
                        return None
                    return cb
                if b in ("noop", "raise", "unsub_self"):
                    for n in names:
                        handler.subscribe(n, mk())
                elif b in ("pred_raise", "pred_false"):
                    def pred(msg, a=a, b=b):
                        if b == "pred_raise":
                            raise _Custom("predicate of addon %d fails" % a.idx)
                        return False
                    cbf = mk()
                    for n in names:
                        handler.register(n).subscribe(cbf, predicate=pred)
                elif b in ("take_waitfor_pred_raise", "take_async_pred_raise"):
                    # a claimant whose predicate fails has not accepted the message: it must not get (take) it
                    def bad_pred(msg, a=a):
                        raise _Custom("claimant predicate of addon %d fails" % a.idx)
                    if b == "take_waitfor_pred_raise":
                        keep.append(handler.wait_for(names, predicate=bad_pred, take=True))
                    else:
                        cm = handler.subscribe_async(names, predicate=bad_pred, take=True)
                        cm.__enter__()
                        cms.append(cm)
                elif b == "waitfor_abandoned":
                    # a claimant with a time limit gives up early (its task is cancelled); once its time limit has passed it is gone
                    # for good and later messages are nobody's but the wire's
                    n0 = sum(len(handler.register(n_)) for n_ in names)

                    async def _abandon(handler=handler):
                        f = handler.wait_for(names, timeout=0.01, take=True)
                        f.cancel()
                    ensure_loop().run_until_complete(_abandon())
                    for _ in range(60):
                        ensure_loop().run_until_complete(asyncio.sleep(0.01))
                        if sum(len(handler.register(n_)) for n_ in names) <= n0:
                            break
                elif b == "async_left_by_exception":
                    # a claimant listened inside a `with subscribe_async(...)` block and left it through an exception (a timeout while
                    # waiting): it is gone, later messages are nobody's but the wire's
                    async def _leave(handler=handler):
                        try:
                            with handler.subscribe_async(names, take=True) as get_msg:
                                await asyncio.wait_for(get_msg(), 0.005)
                        except asyncio.TimeoutError:
                            pass
                    ensure_loop().run_until_complete(_leave())
                elif b == "take_waitfor":
                    keep.append(handler.wait_for(names, take=True))
                elif b in ("take_async", "observe_async"):
                    cm = handler.subscribe_async(names, take=(b == "take_async"))
                    cm.__enter__()
                    cms.append(cm)
        waitfor_left = {(a.idx, lvl): True for a in addons for lvl in ("session_sub", "region_sub") if a.prog[lvl] == "take_waitfor"}

        pid_out, pid_in = 10, 10
        for k, kind in enumerate(program["messages"]):
            rec.cur = k
            raddr = world.viewers[0]["regions"][0]
            if kind == "v2s_rel":
                pid_out += 1
                case = _chat_v2s(pid_out, 0, True, "m%d" % k, world)
                direction, pid, reliable = "out", pid_out, True
            elif kind == "v2s_cmd":
                pid_out += 1
                case = _chat_v2s(pid_out, 524, True, "nosuchcommand %d" % k, world)
                direction, pid, reliable = "out", pid_out, True
            elif kind in ("v2s_cmd_bad", "v2s_cmd_ok"):
                # a command an addon does provide: with a parameter that cannot be parsed (the handler fails at once) / a good one
                pid_out += 1
                case = _chat_v2s(pid_out, 524, True, "repeat lots" if kind == "v2s_cmd_bad" else "repeat 3", world)
                direction, pid, reliable = "out", pid_out, True
            elif kind == "v2s_truncated":
                # a chat datagram cut short inside its body: the header is fine, the body cannot be parsed by whoever looks
                pid_out += 1
                s_ = world.viewers[0]["session"]
                # (a message type the proxy itself has no reason to look into)
                case = {"name": "ScriptDialogReply", "flags": 0x40, "pid": pid_out, "acks": [], "extra": b"", "fill": False,
                        "blocks": [["AgentData", [{"AgentID": s_.agent_id.hex, "SessionID": s_.id.hex}]],
                                   ["Data", [{"ObjectID": "%032x" % 5, "ChatChannel": 7, "ButtonIndex": 1, "ButtonLabel": "label %d" % k}]]]}
                direction, pid, reliable = "out", pid_out, True
            elif kind == "s2v_unrel":
                pid_in += 1
                case = _chat_s2v(pid_in, False, "m%d" % k, 1)
                direction, pid, reliable = "in", pid_in, False
            elif kind == "s2v_agentdata":
                # a message the proxy keeps books on after the hooks have run (the session's active group)
                pid_in += 1
                s_ = world.viewers[0]["session"]
                case = {"name": "AgentDataUpdate", "flags": 0x40, "pid": pid_in, "acks": [], "extra": b"", "fill": False,
                        "blocks": [["AgentData", [{"AgentID": s_.agent_id.hex, "FirstName": "F", "LastName": "L", "GroupTitle": "t%d" % k,
                                                    "ActiveGroupID": "%032x" % (0x9000 + k), "GroupPowers": 5, "GroupName": "g"}]]]}
                direction, pid, reliable = "in", pid_in, True
            elif kind == "s2v_rel_acks":
                pid_in += 1
                case = _chat_s2v(pid_in, True, "m%d" % k, 1, acks=(inj_pid,))
                direction, pid, reliable = "in", pid_in, True
            elif kind == "s2v_rlv0":
                # owner chat that starts like an RLV line but carries no command: nobody claims it, it is ordinary traffic
                pid_in += 1
                case = _chat_s2v(pid_in, True, "@" if k % 2 else "@,", 8)
                direction, pid, reliable = "in", pid_in, True
            elif kind in ("s2v_rlv1", "s2v_rlv3"):
                pid_in += 1
                text = "@detach=n" if kind == "s2v_rlv1" else "@detach=n,sit:%032x=force,clear" % 9
                case = _chat_s2v(pid_in, True, text, 8)
                direction, pid, reliable = "in", pid_in, True
            else:
                raise ValueError(kind)
            n_rlv = {"s2v_rlv1": 1, "s2v_rlv3": 3}.get(kind, 0)
            dg = ref_datagram(case)
            if kind == "v2s_truncated":
                dg = dg[:-4]
            em_before = len(rec.emitted)
            log_before = len(rec.log)
            if direction == "out":
                sent, exc = world.from_viewer(0, raddr, dg)
            else:
                sent, exc = world.from_sim(0, raddr, dg)
            drain()
            msg = rec.messages.get(k)
            new_em = [m for m, _ in rec.emitted[em_before:]]
            hooklog = rec.log[log_before:]
            # ---- what the behaviours imply ----
            claimed_at_packet = False
            reached_packet = []
            for a in addons:
                reached_packet.append(a.idx)
                if a.prog["packet"] in TRUTHY:
                    claimed_at_packet = True
                    break
            got_packet = [x[1] for x in hooklog if x[2] == "packet"]
            if got_packet != reached_packet:
                out.append(("isolation:packet-hooks", "message %d (%s): handle_proxied_packet ran for addons %r, expected %r (programs %r)" % (
                    k, kind, got_packet, reached_packet, [a.prog["packet"] for a in addons])))
            if kind == "s2v_rel_acks" and not claimed_at_packet and not inj_fut.done():
                out.append(("bookkeeping:ack-not-collected", "message %d carried the ack for the proxy's own reliable packet %d but it is still "
                            "outstanding (lludp hooks %r)" % (k, inj_pid, [a.prog["lludp"] for a in addons])))
            if claimed_at_packet:
                if new_em:
                    out.append(("claimed-but-emitted:packet", "message %d claimed by handle_proxied_packet but %d emissions" % (k, len(new_em))))
                continue
            if msg is None:
                out.append(("harness:no-message", "message %d (%s) never reached the session handler (exc %r)" % (k, kind, exc)))
                continue
            # subscribers: every live subscription must have run exactly once, whatever the others did
            named = kind not in ("v2s_truncated", "s2v_agentdata")        # the addons' subscriptions are on the chat message names only
            for a in (addons if named else ()):
                for level in ("session_sub", "region_sub"):
                    b = a.prog[level]
                    if b in ("noop", "raise") or (b == "unsub_self" and k == 0):
                        n = sub_invocations[(k, a.idx, level)]
                        if n != 1:
                            out.append(("isolation:subscriber-skipped:%s" % level, "message %d: %s of addon %d ran %d times (subscriptions: %r)" % (
                                k, level, a.idx, n, [(x.prog["session_sub"], x.prog["region_sub"]) for x in addons])))
            takes_by_subs = 0
            for a in (addons if named else ()):
                for level in ("session_sub", "region_sub"):
                    b = a.prog[level]
                    if b == "take_async":
                        takes_by_subs += 1
                    elif b == "take_waitfor" and waitfor_left.get((a.idx, level)):
                        takes_by_subs += 1
                        waitfor_left[(a.idx, level)] = False
            # lludp-level
            cmd_channel = kind in ("v2s_cmd", "v2s_cmd_bad", "v2s_cmd_ok")
            reached_lludp = []
            hook_truthy = False
            rlv_all_handled = False
            if not cmd_channel:
                if n_rlv:
                    handled_each = []
                    for _ in range(n_rlv):
                        h = False
                        for a in addons:
                            if a.prog["rlv"] in TRUTHY:
                                h = True
                                break
                        handled_each.append(h)
                    rlv_all_handled = all(handled_each)
                if not rlv_all_handled:
                    for a in addons:
                        reached_lludp.append(a.idx)
                        if a.prog["lludp"] in TRUTHY or a.prog["lludp"] == "send_orig_true":
                            hook_truthy = True
                            break
            if kind == "s2v_agentdata" and not hook_truthy and world.viewers[0]["session"].active_group != UUID(int=0x9000 + k):
                out.append(("bookkeeping:active-group", "message %d announced active group %x and no hook claimed it by its return value, but the "
                            "session has %r (lludp hooks %r)" % (k, 0x9000 + k, world.viewers[0]["session"].active_group, [a.prog["lludp"] for a in addons])))
            got_lludp = [x[1] for x in hooklog if x[2] == "lludp"]
            if cmd_channel and got_lludp:
                out.append(("command-channel:hooks-ran", "message %d (%s) was claimed by the proxy's command channel, yet handle_lludp_message "
                            "ran for addons %r" % (k, kind, got_lludp)))
            if [x for x in got_lludp if x in reached_lludp] != reached_lludp and not (n_rlv and not reached_lludp):
                out.append(("isolation:lludp-hooks", "message %d (%s): handle_lludp_message ran for addons %r, expected %r (programs %r)" % (
                    k, kind, got_lludp, reached_lludp, [a.prog["lludp"] for a in addons])))
            took = takes_by_subs + rec.takes[k]
            rlv_dropped = n_rlv and any(a.prog["rlv"] in TRUTHY for a in addons)
            claimed = bool(took or rec.drops[k] or hook_truthy or cmd_channel or rlv_all_handled or rlv_dropped)
            n_orig = sum(1 for m in new_em if m is msg)
            if n_orig > 1:
                out.append(("at-most-once", "message %d (%s) was put on the wire %d times" % (k, kind, n_orig)))
            if not claimed and n_orig != 1:
                out.append(("lost-unclaimed", "message %d (%s) was claimed by nobody but put on the wire %d times (exc %r; lludp %r; subs %r)" % (
                    k, kind, n_orig, exc, [a.prog["lludp"] for a in addons], [(a.prog["session_sub"], a.prog["region_sub"]) for a in addons])))
            if claimed:
                rec_claimed = True
            emits_orig = {"take_then_send_orig", "drop_then_send", "send_orig", "send_orig_twice", "send_orig_true"}
            if hook_truthy and n_orig and not any(a.prog["lludp"] in emits_orig for a in addons if a.idx in reached_lludp):
                # claimed by a truthy return - whatever the value - and nobody forwarded it themselves: the proxy must not either
                out.append(("claimed-but-emitted:lludp", "message %d (%s) was claimed by a hook returning a truthy value (programs %r) but was put on "
                            "the wire %d times" % (k, kind, [a.prog["lludp"] for a in addons], n_orig)))
            if kind == "v2s_truncated" and not claimed and n_orig == 1 and not any(a.prog["lludp"] == "mutate" for a in addons):
                datas = [d for (_a, d, dst) in sent if dst == raddr]
                # (the sequence number in bytes 1-4 is legitimately renumbered around the proxy's own packets)
                if datas and (bytes(datas[-1])[:1] + bytes(datas[-1])[5:]) != (dg[:1] + dg[5:]):
                    out.append(("forwarded-bytes-differ:unparseable", "message %d: an unparseable datagram that addons only looked at was forwarded as "
                                "%d bytes instead of the %d that arrived" % (k, len(datas[-1]), len(dg))))
            # right peer for the original
            if n_orig == 1 and len([1 for (a_, d_, dst) in sent]) >= 1:
                want = raddr if direction == "out" else world.viewers[0]["addr"]
                if not any(dst == want for (_, _, dst) in sent):
                    out.append(("wrong-peer", "message %d forwarded to %r" % (k, [dst for _, _, dst in sent])))
            # copies at most once each
            for cp in rec.copies.get(k, []):
                if sum(1 for m, _ in rec.emitted if m is cp) > 1:
                    out.append(("copy-sent-twice", "a taken copy of message %d was put on the wire twice" % k))
            # dropped reliable => sender acked exactly once
            if msg.dropped and reliable:
                ack_dir = Direction.IN if direction == "out" else Direction.OUT
                n = sum(1 for m in new_em if m.name == "PacketAck" and m.direction == ack_dir
                        for b in m["Packets"] if b["ID"] == pid)
                if n != 1:
                    out.append(("drop-ack-count", "message %d (%s) was dropped but its sender was acked %d times" % (k, kind, n)))
            # logger
            corner = False
            if not corner and rec.logged[k] != 1:
                out.append(("isolation:logger", "message %d (%s): message logger saw it %d times (exc %r)" % (k, kind, rec.logged[k], exc)))
            if exc is not None and not corner:
                out.append(("escaped-exception:%s" % type(exc).__name__, "message %d (%s): %r escaped handle_proxied_packet" % (k, kind, exc)))
        for k, what, raised, emitted in rec.illegal:
            if not raised or emitted:
                out.append(("illegal-op:%s" % what.replace(" ", "-"), "message %r: %s -> RuntimeError=%s, emissions=%d" % (k, what, raised, emitted)))
    finally:
        for cm in cms:
            try:
                cm.__exit__(None, None, None)
            except Exception:
                pass
        world.close()
    classes = ["programs"]
    if any(x[3] in RAISES or x[3] == "raise" for x in rec.log):
        classes.append("raised_in_hook")
    if rec.illegal:
        classes.append("illegal_attempts")
    if rec.takes or rec.drops or any(a.prog["lludp"] in TRUTHY for a in addons):
        classes.append("claimed")
    return out, classes


def deviations(program):
    return sum(1 for p in program["addons"] for h, b in p.items() if b != DEFAULT[h])


def single_placements():
    for hook, behaviours in HOOKS:
        for b in behaviours:
            if b == DEFAULT[hook]:
                continue
            for slot in range(3):
                yield (hook, b, slot)


def program_from(placements, kinds):
    addons = [dict() for _ in range(3)]
    for hook, b, slot in placements:
        addons[slot][hook] = b
    return {"addons": addons, "messages": list(kinds)}


STREAMS = [["v2s_rel", "s2v_unrel", "v2s_rel"], ["s2v_rlv1", "v2s_rel", "s2v_rlv3"], ["v2s_cmd", "s2v_rel_acks", "v2s_rel"],
           ["s2v_rel_acks", "s2v_rlv3", "s2v_unrel"], ["s2v_rlv0", "v2s_rel", "s2v_rlv0"], ["v2s_cmd_bad", "v2s_rel", "v2s_cmd_ok"], ["v2s_truncated", "v2s_rel", "v2s_truncated"],
           ["s2v_agentdata", "v2s_rel", "s2v_agentdata"]]


def shards(tier):
    th = tier == "thorough"
    sh = []
    for rel in (True, False):
        for first in OWN_OPS:
            sh.append({"kind": "ownership", "reliable": rel, "first": first, "depth": 7 if th else 6})
    singles = list(single_placements())
    for i in range(16):
        sh.append({"kind": "single", "lo": i, "step": 16})
    for i in range(48):
        sh.append({"kind": "pairs", "lo": i, "step": 48, "streams": 7 if th else 2})
    for i in range(8):
        sh.append({"kind": "random", "n": 4000 if th else 100})
    return sh


PROGRAM = st.fixed_dictionaries({
    "addons": st.lists(st.fixed_dictionaries({h: st.sampled_from(bs + [DEFAULT[h]] * 3) for h, bs in HOOKS}), min_size=1, max_size=3),
    "messages": st.lists(st.sampled_from(MSG_KINDS), min_size=1, max_size=5),
})


def run_shard(ctx, shard):
    k = shard["kind"]
    if k == "ownership":
        n = 0
        for ln in range(0, shard["depth"]):
            for rest in itertools.product(OWN_OPS, repeat=ln):
                ops = (shard["first"],) + rest
                res = run_ownership(ops, shard["reliable"])
                if res is None:
                    continue
                n += 1
                if res:
                    ctx.report({"ownership": list(ops), "reliable": shard["reliable"]}, res)
        ctx.bulk(n, n, {"ownership_sequences": n}, {"ownership": [shard["first"], "take", "send_copy", "tail"], "reliable": shard["reliable"]})
    elif k in ("single", "pairs"):
        singles = list(single_placements())
        if k == "single":
            work = [(p,) for p in singles][shard["lo"]::shard["step"]]
        else:
            allpairs = [(a, b) for a, b in itertools.combinations(singles, 2) if not (a[0] == b[0] and a[2] == b[2])]
            work = allpairs[shard["lo"]::shard["step"]]
        n = 0
        cls = Counter()
        sample = None
        for placements in work:
            for stream in STREAMS[:shard.get("streams", 7)]:
                prog = program_from(placements, stream)
                res, classes = run_program(prog)
                n += 1
                cls.update(classes)
                sample = sample or prog
                if res:
                    ctx.report(prog, res)
        ctx.bulk(n, n, dict(cls), sample)
    else:
        def body(prog):
            res, classes = run_program(prog)
            ctx.case(prog, nontrivial=deviations(prog) > 0, classes=classes)
            return res
        hyp_run(ctx, PROGRAM, body, shard["n"])


def replay(ctx, case):
    if "ownership" in case:
        return run_ownership(tuple(case["ownership"]), case["reliable"]) or []
    res, _ = run_program(case)
    return res
