#!/bin/bash
# usage: seedround.sh <round-number> <prop> ...   imports /tmp/seed<r>/out/<prop> with suffix r<r> and runs the r<r> selftest
R=$1; shift
cd /verif
for p in "$@"; do
  PYTHONPATH=/repo:/verif /venv/bin/python -W ignore -m vlib.import_seed $p /tmp/seed$R/out/$p --suffix r$R 2>&1 | grep -v "^WARNING"
  rm -rf /tmp/seed$R/wt-$p
done
/venv/bin/python - <<PY
import json,glob
for f in glob.glob('/verif/seeded/*r$R/meta.json'):
    d=json.load(open(f)); d["origin"]="round-$R independent sub-agent (given the property text, the list of earlier seeded changes to avoid, and a scratch clone)"; json.dump(d,open(f,'w'),indent=1)
PY
for p in "$@"; do
  ./check --selftest $p --only r$R --skip-clean 2>&1 | grep -v "^WARNING" | cut -c1-240
done
