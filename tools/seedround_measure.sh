#!/bin/bash
# usage: seedround_measure.sh <round> <prop> ...   import /tmp/seed<r>/out/<prop> (suffix r<r>), then run the r<r> patches through the
# property's check AS IT STANDS and merge the verdicts into sensitivity/<prop>.json (no check is changed in between)
R=$1; shift
cd /verif
for p in "$@"; do
  PYTHONPATH=/repo:/verif /venv/bin/python -W ignore -m vlib.import_seed $p /tmp/seed$R/out/$p --suffix r$R 2>&1 | grep -v "^WARNING"
  rm -rf /tmp/seed$R/wt-$p
done
/venv/bin/python - <<PY
import json,glob
for f in glob.glob('/verif/seeded/*r$R/meta.json'):
    d=json.load(open(f)); d["origin"]="round-$R independent sub-agent (given the property text, the list of earlier seeded changes to avoid, and a scratch clone); measured against the checks as they stood, which were not changed afterwards"; json.dump(d,open(f,'w'),indent=1)
PY
for p in "$@"; do
  ./check --selftest $p --only r$R --skip-clean --record 2>&1 | grep -v "^WARNING" | cut -c1-240
done
