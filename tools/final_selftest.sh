#!/bin/bash
# recorded sensitivity self-test of all properties, two streams side by side; logs in /tmp/final-selftest-CNN.log
cd /verif
run() { for p in "$@"; do ./check --selftest $p --seeds 2,3 --record > /tmp/final-selftest-$p.log 2>&1; done; }
run C14 C05 C19 C01 C07 C17 C09 C11 C03 C13 &
run C20 C06 C18 C15 C16 C02 C04 C08 C10 C12 &
wait
echo finished
